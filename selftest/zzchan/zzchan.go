// Package zzchan holds channel idioms in plain Go. bin/selftest-channels copies it into a scratch copy of the
// repository BEFORE instrumentation, so the rewriter turns every operation into its simulated form, and
// harness/chansim_test.go (build tag chanselftest) runs the idioms under the cooperative scheduler with the race
// detector on: the simulated channels must behave like Go's, must never stall the run, and must give the detector
// the happens-before edges real channels give (no false race) and no more than those (a real race stays visible).
package zzchan

import (
	"context"
	"runtime"
	"sync"
	"sync/atomic"
	"time"
)

// Unbuffered: producer / consumer rendezvous; the consumer reads what the producer wrote before sending.
func Unbuffered(n int) int {
	ch := make(chan *int)
	done := make(chan int)
	go func() {
		sum := 0
		for p := range ch {
			sum += *p // ordered after the producer's write by the send
		}
		done <- sum
	}()
	for i := 1; i <= n; i++ {
		v := new(int)
		*v = i
		ch <- v
	}
	close(ch)
	return <-done
}

// Buffered semaphore with non-blocking acquire.
func Semaphore(workers, slots int) (ran, inline int) {
	sem := make(chan struct{}, slots)
	var mu sync.Mutex
	var wg sync.WaitGroup
	for i := 0; i < workers; i++ {
		select {
		case sem <- struct{}{}:
			wg.Add(1)
			go func() {
				defer wg.Done()
				defer func() { <-sem }()
				mu.Lock()
				ran++
				mu.Unlock()
			}()
		default:
			mu.Lock()
			inline++
			mu.Unlock()
		}
	}
	wg.Wait()
	return
}

// SingleFlight: the first caller computes, the others wait on a channel that is closed when the value is there.
type Flight struct {
	mu    sync.Mutex
	calls map[string]*call
	Runs  int
}
type call struct {
	done chan struct{}
	val  int
}

func (f *Flight) Do(key string, fn func() int) int {
	f.mu.Lock()
	if f.calls == nil {
		f.calls = map[string]*call{}
	}
	if c, ok := f.calls[key]; ok {
		f.mu.Unlock()
		<-c.done
		return c.val // ordered after the computation by the close
	}
	c := &call{done: make(chan struct{})}
	f.calls[key] = c
	f.Runs++
	f.mu.Unlock()
	c.val = fn()
	close(c.done)
	f.mu.Lock()
	delete(f.calls, key)
	f.mu.Unlock()
	return c.val
}

// SelectBoth: two selects meet on an unbuffered channel; a third clause is never ready.
func SelectBoth() (got int, ok bool) {
	ch := make(chan int)
	never := make(chan int)
	res := make(chan int, 1)
	go func() {
		select {
		case v, more := <-ch:
			if more {
				res <- v
			}
		case <-never:
		}
	}()
	select {
	case ch <- 42:
	case v := <-never:
		return v, false
	}
	v, ok := <-res
	return v, ok
}

// Worker with a stop channel that nobody closes: it must not keep the run from ending.
func Background() chan<- int {
	work := make(chan int, 4)
	stop := make(chan struct{})
	go func() {
		for {
			select {
			case <-work:
			case <-stop:
				return
			}
		}
	}()
	return work
}

// Cancel: a context's Done channel is not ours; cancel comes from another task.
func Cancel(ctx context.Context, work <-chan int) (n int, cancelled bool) {
	for {
		select {
		case <-ctx.Done():
			return n, true
		case _, ok := <-work:
			if !ok {
				return n, false
			}
			n++
		}
	}
}

// Racy: the channel orders nothing here - the reader does not receive before it reads.
func Racy() int {
	x := 0
	ch := make(chan struct{}, 1)
	var wg sync.WaitGroup
	wg.Add(1)
	go func() {
		defer wg.Done()
		x = 1
		ch <- struct{}{}
	}()
	y := x // no receive before this read: a data race
	wg.Wait()
	<-ch
	return y
}

// Deadlock: both sides receive first.
func Deadlock() {
	a, b := make(chan int), make(chan int)
	go func() {
		<-a
		b <- 1
	}()
	<-b
	a <- 1
}

// ClosedRecv: receive from a closed channel gives the zero value and false; len follows the buffer.
func ClosedRecv() (int, bool, int, int) {
	ch := make(chan int, 3)
	ch <- 7
	ch <- 8
	l := len(ch)
	close(ch)
	a := <-ch
	<-ch
	z, ok := <-ch
	return a + z, ok, l, len(ch)
}

// Queue: a bounded queue on sync.Cond; producers and consumers wait for each other.
type Queue struct {
	mu       sync.Mutex
	notEmpty *sync.Cond
	notFull  *sync.Cond
	items    []int
	max      int
}

func NewQueue(max int) *Queue {
	q := &Queue{max: max}
	q.notEmpty = sync.NewCond(&q.mu)
	q.notFull = sync.NewCond(&q.mu)
	return q
}

func (q *Queue) Put(v int) {
	q.mu.Lock()
	for len(q.items) >= q.max {
		q.notFull.Wait()
	}
	q.items = append(q.items, v)
	q.notEmpty.Signal()
	q.mu.Unlock()
}

func (q *Queue) Get() int {
	q.mu.Lock()
	for len(q.items) == 0 {
		q.notEmpty.Wait()
	}
	v := q.items[0]
	q.items = q.items[1:]
	q.notFull.Broadcast()
	q.mu.Unlock()
	return v
}

// Timeout: wait for work or for a deadline.
func Timeout(work <-chan int, d time.Duration) (int, bool) {
	select {
	case v := <-work:
		return v, true
	case <-time.After(d):
		return 0, false
	}
}

// Backoff: waits implemented with a timer instead of time.Sleep.
func Backoff(n int, base time.Duration) time.Duration {
	start := time.Now()
	d := base
	for i := 0; i < n; i++ {
		t := time.NewTimer(d)
		<-t.C
		d *= 2
	}
	return time.Since(start)
}

// Janitor: a background goroutine woken by a ticker until it is stopped.
type Janitor struct {
	mu    sync.Mutex
	ticks int
	stop  chan struct{}
	done  chan struct{}
}

func StartJanitor(every time.Duration) *Janitor {
	j := &Janitor{stop: make(chan struct{}), done: make(chan struct{})}
	tk := time.NewTicker(every)
	go func() {
		defer close(j.done)
		defer tk.Stop()
		for {
			select {
			case <-tk.C:
				j.mu.Lock()
				j.ticks++
				j.mu.Unlock()
			case <-j.stop:
				return
			}
		}
	}()
	return j
}

func (j *Janitor) Stop() int {
	close(j.stop)
	<-j.done
	j.mu.Lock()
	defer j.mu.Unlock()
	return j.ticks
}

// SpinWait: one goroutine polls a flag with time.Sleep, another with runtime.Gosched; a third sets the flags.
func SpinWait() int {
	var a, b atomic.Bool
	var wg sync.WaitGroup
	n := 0
	var mu sync.Mutex
	wg.Add(3)
	go func() {
		defer wg.Done()
		for !a.Load() {
			time.Sleep(time.Millisecond)
		}
		mu.Lock()
		n++
		mu.Unlock()
	}()
	go func() {
		defer wg.Done()
		for !b.Load() {
			runtime.Gosched()
		}
		mu.Lock()
		n++
		mu.Unlock()
	}()
	go func() {
		defer wg.Done()
		a.Store(true)
		b.Store(true)
	}()
	wg.Wait()
	return n
}

// MethodValues: lock operations taken as method values, and the RLocker of an RWMutex.
type Box struct {
	mu sync.Mutex
	rw sync.RWMutex
	n  int
}

func (b *Box) locked() func() {
	b.mu.Lock()
	return b.mu.Unlock
}

func (b *Box) Add(k int) {
	defer b.locked()()
	b.n += k
	rl := b.rw.RLocker()
	rl.Lock()
	_ = b.n
	rl.Unlock()
	w := b.rw.Lock
	w()
	b.rw.Unlock()
}

func (b *Box) N() int {
	defer b.locked()()
	return b.n
}

// SyncMapOrder: the order in which a fresh sync.Map hands out its entries.
func SyncMapOrder() string {
	var m sync.Map
	for _, k := range []string{"delta", "alpha", "charlie", "bravo", "echo", "foxtrot"} {
		m.Store(k, len(k))
	}
	out := ""
	m.Range(func(k, _ any) bool {
		out += k.(string)[:1]
		return true
	})
	return out
}
