// Package simrand stands in for the package-level functions of math/rand and math/rand/v2 in the
// instrumented tree. The Go runtime seeds those generators at random in every process; here every draw
// comes from one generator that the harness seeds from the case (Seed), so that a run is a function of
// the case alone and the draws are part of what the seeded search explores.
package simrand

import (
	mrand "math/rand"
	"sync"
)

var (
	mu    sync.Mutex
	r     = mrand.New(mrand.NewSource(1))
	draws int
)

// Install seeds the generator (harness side) and resets the draw counter.
func Install(seed int64) {
	mu.Lock()
	r = mrand.New(mrand.NewSource(seed))
	draws = 0
	mu.Unlock()
}

// Draws returns how many values the code under test has drawn since Install.
func Draws() int { mu.Lock(); defer mu.Unlock(); return draws }

func with[T any](f func(*mrand.Rand) T) T {
	mu.Lock()
	defer mu.Unlock()
	draws++
	return f(r)
}

// Seed is what math/rand.Seed did: the code under test fixes the sequence itself.
func Seed(seed int64) { mu.Lock(); r = mrand.New(mrand.NewSource(seed)); mu.Unlock() }

func Int() int             { return with(func(r *mrand.Rand) int { return r.Int() }) }
func Intn(n int) int       { return with(func(r *mrand.Rand) int { return r.Intn(n) }) }
func Int31() int32         { return with(func(r *mrand.Rand) int32 { return r.Int31() }) }
func Int31n(n int32) int32 { return with(func(r *mrand.Rand) int32 { return r.Int31n(n) }) }
func Int63() int64         { return with(func(r *mrand.Rand) int64 { return r.Int63() }) }
func Int63n(n int64) int64 { return with(func(r *mrand.Rand) int64 { return r.Int63n(n) }) }
func Uint32() uint32       { return with(func(r *mrand.Rand) uint32 { return r.Uint32() }) }
func Uint64() uint64       { return with(func(r *mrand.Rand) uint64 { return r.Uint64() }) }
func Float32() float32     { return with(func(r *mrand.Rand) float32 { return r.Float32() }) }
func Float64() float64     { return with(func(r *mrand.Rand) float64 { return r.Float64() }) }
func NormFloat64() float64 { return with(func(r *mrand.Rand) float64 { return r.NormFloat64() }) }
func ExpFloat64() float64  { return with(func(r *mrand.Rand) float64 { return r.ExpFloat64() }) }
func Perm(n int) []int     { return with(func(r *mrand.Rand) []int { return r.Perm(n) }) }
func Shuffle(n int, swap func(i, j int)) {
	with(func(r *mrand.Rand) int { r.Shuffle(n, swap); return 0 })
}
func Read(p []byte) (int, error) {
	n := with(func(r *mrand.Rand) int { k, _ := r.Read(p); return k })
	return n, nil
}

// math/rand/v2 names
func IntN(n int) int          { return Intn(n) }
func Int32() int32            { return Int31() }
func Int32N(n int32) int32    { return Int31n(n) }
func Int64() int64            { return Int63() }
func Int64N(n int64) int64    { return Int63n(n) }
func Uint() uint              { return uint(Uint64()) }
func UintN(n uint) uint       { return uint(Uint64N(uint64(n))) }
func Uint32N(n uint32) uint32 { return uint32(Uint64N(uint64(n))) }
func Uint64N(n uint64) uint64 {
	if n == 0 {
		panic("invalid argument to Uint64N")
	}
	return Uint64() % n
}

type intType interface {
	~int | ~int8 | ~int16 | ~int32 | ~int64 | ~uint | ~uint8 | ~uint16 | ~uint32 | ~uint64 | ~uintptr
}

// N is math/rand/v2.N.
func N[I intType](n I) I {
	if n <= 0 {
		panic("invalid argument to N")
	}
	return I(Uint64N(uint64(n)))
}
