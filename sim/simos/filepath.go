package simos

// path/filepath functions that touch the file system (Glob, Walk, WalkDir, Abs) and the io/ioutil
// leftovers, over the simulated disk: code that finds files by pattern or by walking a directory sees the
// simulated directory, stray files included, and each directory listing is an I/O event like any other.

import (
	"io/fs"
	"os"
	"path/filepath"
	"sort"
	"strings"
)

func hasMeta(path string) bool { return strings.ContainsAny(path, `*?[\`) }

// Glob is filepath.Glob.
func Glob(pattern string) (matches []string, err error) {
	if st == nil {
		return filepath.Glob(pattern)
	}
	if _, err := filepath.Match(pattern, ""); err != nil {
		return nil, err
	}
	if !hasMeta(pattern) {
		if _, err = Lstat(pattern); err != nil {
			return nil, nil
		}
		return []string{pattern}, nil
	}
	dir, file := filepath.Split(pattern)
	if len(dir) > 1 && dir[len(dir)-1] == '/' {
		dir = dir[:len(dir)-1]
	}
	if dir == "" {
		dir = "."
	}
	if !hasMeta(dir) {
		return globDir(dir, file, nil)
	}
	if dir == pattern {
		return nil, filepath.ErrBadPattern
	}
	m, err := Glob(dir)
	if err != nil {
		return nil, err
	}
	for _, d := range m {
		matches, err = globDir(d, file, matches)
		if err != nil {
			return
		}
	}
	return
}

func globDir(dir, pattern string, matches []string) ([]string, error) {
	fi, err := Stat(dir)
	if err != nil || !fi.IsDir() {
		return matches, nil
	}
	ents, err := ReadDir(dir)
	if err != nil {
		return matches, nil
	}
	names := make([]string, 0, len(ents))
	for _, e := range ents {
		names = append(names, e.Name())
	}
	sort.Strings(names)
	for _, n := range names {
		ok, err := filepath.Match(pattern, n)
		if err != nil {
			return matches, err
		}
		if ok {
			matches = append(matches, filepath.Join(dir, n))
		}
	}
	return matches, nil
}

// Abs is filepath.Abs.
func Abs(path string) (string, error) {
	if st == nil {
		return filepath.Abs(path)
	}
	if filepath.IsAbs(path) {
		return filepath.Clean(path), nil
	}
	wd, err := Getwd()
	if err != nil {
		return "", err
	}
	return filepath.Join(wd, path), nil
}

// WalkDir is filepath.WalkDir.
func WalkDir(root string, fn fs.WalkDirFunc) error {
	if st == nil {
		return filepath.WalkDir(root, fn)
	}
	info, err := Lstat(root)
	if err != nil {
		err = fn(root, nil, err)
	} else {
		err = walkDir(root, fs.FileInfoToDirEntry(info), fn)
	}
	if err == filepath.SkipDir || err == filepath.SkipAll {
		return nil
	}
	return err
}

func walkDir(path string, d fs.DirEntry, fn fs.WalkDirFunc) error {
	if err := fn(path, d, nil); err != nil || !d.IsDir() {
		if err == filepath.SkipDir && d.IsDir() {
			err = nil
		}
		return err
	}
	ents, err := ReadDir(path)
	if err != nil {
		err = fn(path, d, err)
		if err != nil {
			if err == filepath.SkipDir && d.IsDir() {
				err = nil
			}
			return err
		}
	}
	sort.Slice(ents, func(i, j int) bool { return ents[i].Name() < ents[j].Name() })
	for _, e := range ents {
		if err := walkDir(filepath.Join(path, e.Name()), e, fn); err != nil {
			if err == filepath.SkipDir {
				break
			}
			return err
		}
	}
	return nil
}

// Walk is filepath.Walk.
func Walk(root string, fn filepath.WalkFunc) error {
	if st == nil {
		return filepath.Walk(root, fn)
	}
	return WalkDir(root, func(path string, d fs.DirEntry, err error) error {
		if err != nil {
			return fn(path, nil, err)
		}
		info, ierr := d.Info()
		return fn(path, info, ierr)
	})
}

// TempFile is io/ioutil.TempFile.
func TempFile(dir, pattern string) (*File, error) { return CreateTemp(dir, pattern) }

var _ = os.ErrNotExist
