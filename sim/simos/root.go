package simos

// os.Root (directory handles, Go 1.24+) over the simulated disk: operations relative to a directory that was opened
// once. The simulated version resolves names against the directory's path; the escape checks of the real type
// (".." and symbolic links that leave the tree) are reduced to rejecting names that climb out lexically.

import (
	"io/fs"
	"os"
	"path/filepath"
	"strings"
	"syscall"
)

// Root stands in for os.Root.
type Root struct {
	real *os.Root
	dir  string
}

// OpenRoot is os.OpenRoot.
func OpenRoot(name string) (*Root, error) {
	if st == nil {
		r, err := os.OpenRoot(name)
		if err != nil {
			return nil, err
		}
		return &Root{real: r}, nil
	}
	p := st.abs(name)
	idx, dec := begin("open-r", p, 0)
	if dec.kind == Fail {
		return nil, end(idx, dec, pathErr("open", name, dec.errno))
	}
	rp, n, e := st.resolve(p)
	if e != 0 {
		return nil, end(idx, dec, pathErr("open", name, e))
	}
	if !n.IsDir() {
		return nil, end(idx, dec, pathErr("open", name, syscall.ENOTDIR))
	}
	return &Root{dir: rp}, end(idx, dec, nil)
}

func (r *Root) in(op, name string) (string, error) {
	c := filepath.Clean("/" + name)
	if name == "" || strings.HasPrefix(filepath.Clean(name), "..") || filepath.IsAbs(name) {
		return "", &os.PathError{Op: op, Path: name, Err: syscall.EINVAL}
	}
	return filepath.Join(r.dir, c), nil
}

func (r *Root) Name() string {
	if r.real != nil {
		return r.real.Name()
	}
	return r.dir
}

func (r *Root) Close() error {
	if r.real != nil {
		return r.real.Close()
	}
	return nil
}

func (r *Root) OpenFile(name string, flag int, perm fs.FileMode) (*File, error) {
	if r.real != nil {
		f, err := r.real.OpenFile(name, flag, perm)
		if err != nil {
			return nil, err
		}
		return &File{real: f}, nil
	}
	p, err := r.in("openat", name)
	if err != nil {
		return nil, err
	}
	f, err := OpenFile(p, flag, perm)
	if err != nil {
		return nil, relErr(err, "openat", name)
	}
	f.name = name
	return f, nil
}

func (r *Root) Open(name string) (*File, error) { return r.OpenFile(name, os.O_RDONLY, 0) }
func (r *Root) Create(name string) (*File, error) {
	return r.OpenFile(name, os.O_RDWR|os.O_CREATE|os.O_TRUNC, 0o666)
}

// relErr renames the operation and path of a PathError the way the real type reports them (relative name).
func relErr(err error, op, name string) error {
	if pe, ok := err.(*os.PathError); ok {
		return &os.PathError{Op: op, Path: name, Err: pe.Err}
	}
	return err
}

func (r *Root) Stat(name string) (fs.FileInfo, error) {
	if r.real != nil {
		return r.real.Stat(name)
	}
	p, err := r.in("statat", name)
	if err != nil {
		return nil, err
	}
	fi, err := Stat(p)
	return fi, relErr(err, "statat", name)
}

func (r *Root) Lstat(name string) (fs.FileInfo, error) {
	if r.real != nil {
		return r.real.Lstat(name)
	}
	p, err := r.in("lstatat", name)
	if err != nil {
		return nil, err
	}
	fi, err := Lstat(p)
	return fi, relErr(err, "lstatat", name)
}

func (r *Root) Remove(name string) error {
	if r.real != nil {
		return r.real.Remove(name)
	}
	p, err := r.in("unlinkat", name)
	if err != nil {
		return err
	}
	return relErr(Remove(p), "unlinkat", name)
}

func (r *Root) Mkdir(name string, perm fs.FileMode) error {
	if r.real != nil {
		return r.real.Mkdir(name, perm)
	}
	p, err := r.in("mkdirat", name)
	if err != nil {
		return err
	}
	return relErr(Mkdir(p, perm), "mkdirat", name)
}

func (r *Root) Rename(oldname, newname string) error {
	if r.real != nil {
		return r.real.Rename(oldname, newname)
	}
	op, err := r.in("renameat", oldname)
	if err != nil {
		return err
	}
	np, err := r.in("renameat", newname)
	if err != nil {
		return err
	}
	if e := Rename(op, np); e != nil {
		if le, ok := e.(*os.LinkError); ok {
			return &os.LinkError{Op: "renameat", Old: oldname, New: newname, Err: le.Err}
		}
		return e
	}
	return nil
}

func (r *Root) ReadFile(name string) ([]byte, error) {
	if r.real != nil {
		return r.real.ReadFile(name)
	}
	p, err := r.in("openat", name)
	if err != nil {
		return nil, err
	}
	b, err := ReadFile(p)
	return b, relErr(err, "openat", name)
}

func (r *Root) WriteFile(name string, data []byte, perm fs.FileMode) error {
	if r.real != nil {
		return r.real.WriteFile(name, data, perm)
	}
	p, err := r.in("openat", name)
	if err != nil {
		return err
	}
	return relErr(WriteFile(p, data, perm), "openat", name)
}

func (r *Root) Readlink(name string) (string, error) {
	if r.real != nil {
		return r.real.Readlink(name)
	}
	p, err := r.in("readlinkat", name)
	if err != nil {
		return "", err
	}
	s, err := Readlink(p)
	return s, relErr(err, "readlinkat", name)
}
