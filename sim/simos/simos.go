// Package simos is the simulated file system, environment and process boundary.
// verif-rewrite redirects the os.* calls of the code under test to it. While no Disk is
// mounted every function passes through to the real os package (used when the
// repository's own tests run on the instrumented tree).
//
// Crash model: "process killed / write refused". A completed write is persistent
// without fsync and rename is atomic; power loss is not modelled (the properties speak
// about killed processes, full disks and failing write calls).
package simos

import (
	"encoding/json"
	"errors"
	"fmt"
	"io"
	"io/fs"
	"os"
	"path/filepath"
	"sort"
	"strconv"
	"strings"
	"syscall"
	"time"
)

// Inode is a file or directory of the simulated disk.
type Inode struct {
	Data  []byte      `json:"data,omitempty"`
	Mode  fs.FileMode `json:"mode"` // includes fs.ModeDir for directories
	MTime int64       `json:"mtime,omitempty"`
	Link  string      `json:"link,omitempty"` // symbolic link: the link text (Mode has fs.ModeSymlink)
}

func (i *Inode) IsDir() bool     { return i.Mode&fs.ModeDir != 0 }
func (i *Inode) IsSymlink() bool { return i.Mode&fs.ModeSymlink != 0 }

// Disk is everything that survives a simulated process.
type Disk struct {
	Files    map[string]*Inode `json:"files"`
	Env      map[string]string `json:"env"`
	Cwd      string            `json:"cwd"`
	Exe      string            `json:"exe"`
	Stdin    []byte            `json:"stdin,omitempty"`
	StdinTTY bool              `json:"stdin_tty,omitempty"` // true: reads return one line at a time (terminal); false: a pipe
	Root     bool              `json:"root,omitempty"`      // true: permission bits are ignored (uid 0)
	Quota    int               `json:"quota,omitempty"`
	// Mounts lists directories that are file systems of their own (e.g. "/tmp" on a tmpfs): a rename
	// across two of them fails with EXDEV, as it does on a real machine
	Mounts []string `json:"mounts,omitempty"`
	Temps  int      `json:"temps,omitempty"` // counter for CreateTemp/MkdirTemp names
}

// NewDisk returns a disk with "/" and "/tmp", HOME=/home/u and cwd /home/u/work.
func NewDisk() *Disk {
	d := &Disk{Files: map[string]*Inode{}, Env: map[string]string{}, Cwd: "/", Exe: "/usr/local/bin/wtf"}
	d.Files["/"] = &Inode{Mode: fs.ModeDir | 0o755}
	d.MkdirAllRaw("/tmp", 0o777)
	d.MkdirAllRaw("/home/u/work", 0o755)
	d.MkdirAllRaw("/usr/local/bin", 0o755)
	d.Env["HOME"] = "/home/u"
	d.Cwd = "/home/u/work"
	return d
}

// Clone deep-copies the disk.
func (d *Disk) Clone() *Disk {
	c := *d
	c.Files = make(map[string]*Inode, len(d.Files))
	for k, v := range d.Files {
		n := *v
		n.Data = append([]byte(nil), v.Data...)
		c.Files[k] = &n
	}
	c.Env = make(map[string]string, len(d.Env))
	for k, v := range d.Env {
		c.Env[k] = v
	}
	c.Stdin = append([]byte(nil), d.Stdin...)
	return &c
}

// Marshal / Unmarshal serialise the disk for the node protocol and replay files.
func (d *Disk) Marshal() []byte {
	b, err := json.Marshal(d)
	if err != nil {
		panic(err)
	}
	return b
}

func UnmarshalDisk(b []byte) (*Disk, error) {
	d := &Disk{}
	if err := json.Unmarshal(b, d); err != nil {
		return nil, err
	}
	if d.Files == nil {
		d.Files = map[string]*Inode{}
	}
	if d.Env == nil {
		d.Env = map[string]string{}
	}
	return d, nil
}

// MkdirAllRaw creates directories without events, faults or permission checks (driver use).
func (d *Disk) MkdirAllRaw(p string, perm fs.FileMode) {
	p = filepath.Clean(p)
	var parts []string
	for q := p; q != "/" && q != "."; q = filepath.Dir(q) {
		parts = append(parts, q)
	}
	for i := len(parts) - 1; i >= 0; i-- {
		if _, ok := d.Files[parts[i]]; !ok {
			d.Files[parts[i]] = &Inode{Mode: fs.ModeDir | perm}
		}
	}
}

// WriteRaw stores a file without events, faults or permission checks (driver use).
func (d *Disk) WriteRaw(p string, data []byte, perm fs.FileMode) {
	p = filepath.Clean(p)
	d.MkdirAllRaw(filepath.Dir(p), 0o755)
	d.Files[p] = &Inode{Data: append([]byte(nil), data...), Mode: perm}
}

// SymlinkRaw creates a symbolic link (harness side).
func (d *Disk) SymlinkRaw(p, target string) {
	p = filepath.Clean(p)
	d.MkdirAllRaw(filepath.Dir(p), 0o755)
	d.Files[p] = &Inode{Mode: fs.ModeSymlink | 0o777, Link: target}
}

// ResolveRaw follows symbolic links in the final component (harness side).
func (d *Disk) ResolveRaw(p string) string {
	p = filepath.Clean(p)
	for hops := 0; hops < 10; hops++ {
		n, ok := d.Files[p]
		if !ok || !n.IsSymlink() {
			return p
		}
		t := n.Link
		if !filepath.IsAbs(t) {
			t = filepath.Join(filepath.Dir(p), t)
		}
		p = filepath.Clean(t)
	}
	return p
}

// ReadRaw returns file content (nil,false when absent or a directory).
func (d *Disk) ReadRaw(p string) ([]byte, bool) {
	n, ok := d.Files[d.ResolveRaw(p)]
	if !ok || n.IsDir() {
		return nil, false
	}
	return n.Data, true
}

// RemoveRaw removes a path and everything below it.
func (d *Disk) RemoveRaw(p string) {
	p = filepath.Clean(p)
	for k := range d.Files {
		if k == p || strings.HasPrefix(k, p+"/") {
			delete(d.Files, k)
		}
	}
}

// mountOf returns the mount point a path lives on ("/" unless it is below one of Mounts).
func (d *Disk) mountOf(p string) string {
	best := "/"
	for _, m := range d.Mounts {
		if (p == m || strings.HasPrefix(p, m+"/")) && len(m) > len(best) {
			best = m
		}
	}
	return best
}

// TotalBytes is the number of data bytes stored.
func (d *Disk) TotalBytes() int {
	n := 0
	for _, f := range d.Files {
		n += len(f.Data)
	}
	return n
}

// ---------------------------------------------------------------------------
// events and faults

// Event is one step of file-system I/O performed by the code under test.
type Event struct {
	Idx  int    `json:"i"`
	Op   string `json:"op"` // stat open-r read open-w write close fsync mkdir rename remove chmod readdir truncate
	Path string `json:"path"`
	N    int    `json:"n,omitempty"`   // bytes for read/write
	Err  string `json:"err,omitempty"` // errno name when the event failed (naturally or by fault)
	Flt  string `json:"fault,omitempty"`
}

// Fault kinds.
const (
	KillBefore = "kill-before" // process dies before the event takes effect
	KillAfter  = "kill-after"  // process dies right after the event took effect
	Torn       = "torn"        // write event: K bytes reach the file, then the process dies
	Short      = "short"       // write event: K bytes reach the file, the call returns Errno
	Fail       = "fail"        // the event fails with Errno and has no effect
	Transient  = "transient"   // the first Count matching events fail with Errno
)

// Fault is one entry of a fault plan. It applies to the event with index At, or, when
// At < 0, to the Nth (0-based) event whose op equals Op (if Op != "") and whose path
// contains Path (if Path != "").
type Fault struct {
	Kind  string `json:"kind"`
	At    int    `json:"at"`
	Op    string `json:"op,omitempty"`
	Path  string `json:"path,omitempty"`
	Nth   int    `json:"nth,omitempty"`
	K     int    `json:"k,omitempty"`
	Errno int    `json:"errno,omitempty"`
	Count int    `json:"count,omitempty"`
	// PerOpen (read faults): Nth / Count refer to the ordinal of the OPEN of the file (0-based, failed opens counted)
	// whose descriptor the read goes through, not to the ordinal of the read call: every read through that
	// descriptor fails. How many read calls the code needs per file is then no part of the fault's meaning.
	PerOpen bool `json:"per_open,omitempty"`

	seen int
}

// KillError is what the kill hook receives.
type KillInfo struct {
	Event Event
	Fault Fault
}

// ExitPanic is panicked by Exit when no exit hook is installed (in-process worlds).
type ExitPanic struct{ Code int }

type state struct {
	disk     *Disk
	trace    []Event
	faults   []Fault
	fired    map[string]int
	killHook func(KillInfo)
	exitHook func(int)
	nextFD   int
	lat      []int64             // per-event latency (ns), cycled: every I/O event moves the clock (a slow disk)
	advance  func(time.Duration) // how the clock is moved
	opens    map[string]int      // path -> number of open-for-reading events so far
	curOrd   int                 // open ordinal of the descriptor a read event goes through (-1: none)
}

var st *state

// Mount makes d the file system seen by the code under test, with a fault plan.
func Mount(d *Disk, faults []Fault) {
	fs2 := make([]Fault, len(faults))
	copy(fs2, faults)
	st = &state{disk: d, faults: fs2, fired: map[string]int{}, opens: map[string]int{}, curOrd: -1}
}

// SetLatency makes every I/O event of the mounted disk take simulated time: event i takes lat[i mod len(lat)]
// nanoseconds (call after Mount).
func SetLatency(lat []int64, advance func(time.Duration)) {
	if st != nil {
		st.lat, st.advance = lat, advance
	}
}

// Unmount returns to pass-through.
func Unmount() { st = nil }

// Mounted reports whether a simulated disk is active.
func Mounted() bool { return st != nil }

// Current returns the mounted disk.
func Current() *Disk {
	if st == nil {
		return nil
	}
	return st.disk
}

// Trace returns the I/O events so far.
func Trace() []Event {
	if st == nil {
		return nil
	}
	return append([]Event(nil), st.trace...)
}

// Fired returns how often each fault kind actually fired.
func Fired() map[string]int {
	if st == nil {
		return nil
	}
	out := map[string]int{}
	for k, v := range st.fired {
		out[k] = v
	}
	return out
}

// SetKillHook installs the function that terminates the simulated process for kill
// faults (it must not return).
func SetKillHook(f func(KillInfo)) { st.killHook = f }

// SetExitHook installs the function called by Exit (it must not return).
func SetExitHook(f func(int)) { st.exitHook = f }

func errnoName(e syscall.Errno) string {
	switch e {
	case syscall.ENOENT:
		return "ENOENT"
	case syscall.EACCES:
		return "EACCES"
	case syscall.EIO:
		return "EIO"
	case syscall.ENOSPC:
		return "ENOSPC"
	case syscall.EDQUOT:
		return "EDQUOT"
	case syscall.EISDIR:
		return "EISDIR"
	case syscall.ENOTDIR:
		return "ENOTDIR"
	case syscall.EEXIST:
		return "EEXIST"
	case syscall.EMFILE:
		return "EMFILE"
	case syscall.EROFS:
		return "EROFS"
	case syscall.ENOTEMPTY:
		return "ENOTEMPTY"
	case syscall.EINVAL:
		return "EINVAL"
	case syscall.EBADF:
		return "EBADF"
	}
	return "E" + strconv.Itoa(int(e))
}

type decision struct {
	kind  string // "", Fail, Short, Torn, KillBefore, KillAfter
	k     int
	errno syscall.Errno
	fault Fault
}

// begin registers an event and returns what the fault plan says about it.
func begin(op, path string, n int) (int, decision) {
	idx := len(st.trace)
	st.trace = append(st.trace, Event{Idx: idx, Op: op, Path: path, N: n})
	if len(st.lat) > 0 && st.advance != nil {
		if d := st.lat[idx%len(st.lat)]; d > 0 {
			st.advance(time.Duration(d))
		}
	}
	var dec decision
	for i := range st.faults {
		f := &st.faults[i]
		match := false
		if f.At >= 0 {
			match = f.At == idx
		} else {
			if f.PerOpen {
				if op == "read" && st.curOrd >= 0 && (f.Path == "" || strings.Contains(path, f.Path)) {
					if f.Kind == Transient {
						match = st.curOrd < f.Count
					} else {
						match = st.curOrd == f.Nth
					}
				}
			} else if (f.Op == "" || f.Op == op) && (f.Path == "" || strings.Contains(path, f.Path)) {
				if f.Kind == Transient {
					match = f.seen < f.Count
				} else {
					match = f.seen == f.Nth
				}
				f.seen++
			}
		}
		if !match || dec.kind != "" {
			continue
		}
		kind := f.Kind
		if kind == Transient {
			kind = Fail
		}
		if (kind == Short || kind == Torn) && op != "write" {
			continue // only meaningful on writes
		}
		dec = decision{kind: kind, k: f.K, errno: syscall.Errno(f.Errno), fault: *f}
		if dec.errno == 0 {
			dec.errno = syscall.EIO
		}
		st.fired[f.Kind]++
		st.trace[idx].Flt = f.Kind
	}
	if dec.kind == KillBefore {
		kill(idx, dec)
	}
	return idx, dec
}

func kill(idx int, dec decision) {
	if st.killHook == nil {
		panic(fmt.Sprintf("simos: kill fault at event %d but no kill hook installed", idx))
	}
	st.killHook(KillInfo{Event: st.trace[idx], Fault: dec.fault})
	panic("simos: kill hook returned")
}

// end finishes an event: records a natural error and honours kill-after.
func end(idx int, dec decision, err error) error {
	if err != nil {
		var en syscall.Errno
		if errors.As(err, &en) {
			st.trace[idx].Err = errnoName(en)
		} else {
			st.trace[idx].Err = err.Error()
		}
	}
	if dec.kind == KillAfter {
		kill(idx, dec)
	}
	return err
}

func pathErr(op, path string, e syscall.Errno) error {
	return &fs.PathError{Op: op, Path: path, Err: e}
}

func (s *state) abs(p string) string {
	if p == "" {
		return ""
	}
	if !filepath.IsAbs(p) {
		p = filepath.Join(s.disk.Cwd, p)
	}
	return filepath.Clean(p)
}

// lookup resolves p, checking that every parent is a searchable directory.
func (s *state) lookup(p string) (*Inode, syscall.Errno) {
	if p == "" {
		return nil, syscall.ENOENT
	}
	if strings.ContainsRune(p, 0) {
		return nil, syscall.EINVAL
	}
	if len(filepath.Base(p)) > 255 {
		return nil, syscall.ENAMETOOLONG
	}
	// parents
	dir := filepath.Dir(p)
	if dir != p {
		var chain []string
		for q := dir; ; q = filepath.Dir(q) {
			chain = append(chain, q)
			if q == "/" {
				break
			}
		}
		for i := len(chain) - 1; i >= 0; i-- {
			n, ok := s.disk.Files[chain[i]]
			if !ok {
				return nil, syscall.ENOENT
			}
			if !n.IsDir() {
				return nil, syscall.ENOTDIR
			}
			if !s.disk.Root && n.Mode&0o100 == 0 {
				return nil, syscall.EACCES
			}
		}
	}
	n, ok := s.disk.Files[p]
	if !ok {
		return nil, syscall.ENOENT
	}
	return n, 0
}

// resolve is lookup that follows a symbolic link in the final component (relative link texts are relative to the
// directory of the link, as in the kernel); it returns the path finally reached too.
func (s *state) resolve(p string) (string, *Inode, syscall.Errno) {
	for hops := 0; hops < 10; hops++ {
		n, e := s.lookup(p)
		if e != 0 {
			return p, nil, e
		}
		if !n.IsSymlink() {
			return p, n, 0
		}
		t := n.Link
		if !filepath.IsAbs(t) {
			t = filepath.Join(filepath.Dir(p), t)
		}
		p = filepath.Clean(t)
	}
	return p, nil, syscall.ELOOP
}

func (s *state) canWriteDir(p string) syscall.Errno {
	_, n, e := s.resolve(p)
	if e != 0 {
		return e
	}
	if !n.IsDir() {
		return syscall.ENOTDIR
	}
	if !s.disk.Root && n.Mode&0o200 == 0 {
		return syscall.EACCES
	}
	return 0
}

func nowNS() int64 { return clock().UnixNano() }

// clock is replaced by the harness so that mtimes follow the simulated clock.
var clock = func() time.Time { return time.Unix(0, 0) }

// SetClock installs the time source used for modification times.
func SetClock(f func() time.Time) { clock = f }

// ---------------------------------------------------------------------------
// file info

type fileInfo struct {
	name  string
	size  int64
	mode  fs.FileMode
	mtime int64
}

func (fi fileInfo) Name() string       { return fi.name }
func (fi fileInfo) Size() int64        { return fi.size }
func (fi fileInfo) Mode() fs.FileMode  { return fi.mode }
func (fi fileInfo) ModTime() time.Time { return time.Unix(0, fi.mtime).UTC() }
func (fi fileInfo) IsDir() bool        { return fi.mode&fs.ModeDir != 0 }
func (fi fileInfo) Sys() any           { return nil }

type dirEntry struct{ fi fileInfo }

func (d dirEntry) Name() string               { return d.fi.name }
func (d dirEntry) IsDir() bool                { return d.fi.IsDir() }
func (d dirEntry) Type() fs.FileMode          { return d.fi.mode.Type() }
func (d dirEntry) Info() (fs.FileInfo, error) { return d.fi, nil }

func infoOf(p string, n *Inode) fileInfo {
	return fileInfo{name: filepath.Base(p), size: int64(len(n.Data)), mode: n.Mode, mtime: n.MTime}
}

// ---------------------------------------------------------------------------
// the os API

func Stat(name string) (fs.FileInfo, error) {
	if st == nil {
		return os.Stat(name)
	}
	p := st.abs(name)
	idx, dec := begin("stat", p, 0)
	if dec.kind == Fail {
		return nil, end(idx, dec, pathErr("stat", name, dec.errno))
	}
	_, n, e := st.resolve(p)
	if e != 0 {
		return nil, end(idx, dec, pathErr("stat", name, e))
	}
	fi := infoOf(p, n)
	return fi, end(idx, dec, nil)
}

func Lstat(name string) (fs.FileInfo, error) {
	if st == nil {
		return os.Lstat(name)
	}
	p := st.abs(name)
	idx, dec := begin("lstat", p, 0)
	if dec.kind == Fail {
		return nil, end(idx, dec, pathErr("lstat", name, dec.errno))
	}
	n, e := st.lookup(p)
	if e != 0 {
		return nil, end(idx, dec, pathErr("lstat", name, e))
	}
	fi := infoOf(p, n)
	if n.IsSymlink() {
		fi.size = int64(len(n.Link))
	}
	return fi, end(idx, dec, nil)
}

// Readlink is os.Readlink.
func Readlink(name string) (string, error) {
	if st == nil {
		return os.Readlink(name)
	}
	p := st.abs(name)
	idx, dec := begin("readlink", p, 0)
	if dec.kind == Fail {
		return "", end(idx, dec, pathErr("readlink", name, dec.errno))
	}
	n, e := st.lookup(p)
	if e != 0 {
		return "", end(idx, dec, pathErr("readlink", name, e))
	}
	if !n.IsSymlink() {
		return "", end(idx, dec, pathErr("readlink", name, syscall.EINVAL))
	}
	return n.Link, end(idx, dec, nil)
}

func ReadFile(name string) ([]byte, error) {
	if st == nil {
		return os.ReadFile(name)
	}
	f, err := OpenFile(name, os.O_RDONLY, 0)
	if err != nil {
		return nil, err
	}
	defer f.closeQuiet()
	data, err := f.readAll()
	if err != nil {
		return nil, err
	}
	return data, nil
}

func WriteFile(name string, data []byte, perm fs.FileMode) error {
	if st == nil {
		return os.WriteFile(name, data, perm)
	}
	f, err := OpenFile(name, os.O_WRONLY|os.O_CREATE|os.O_TRUNC, perm)
	if err != nil {
		return err
	}
	_, err = f.Write(data)
	if err1 := f.Close(); err1 != nil && err == nil {
		err = err1
	}
	return err
}

func Open(name string) (*File, error) {
	if st == nil {
		rf, err := os.Open(name)
		if err != nil {
			return nil, err
		}
		return &File{real: rf}, nil
	}
	return OpenFile(name, os.O_RDONLY, 0)
}

func Create(name string) (*File, error) {
	if st == nil {
		rf, err := os.Create(name)
		if err != nil {
			return nil, err
		}
		return &File{real: rf}, nil
	}
	return OpenFile(name, os.O_RDWR|os.O_CREATE|os.O_TRUNC, 0o666)
}

func OpenFile(name string, flag int, perm fs.FileMode) (*File, error) {
	if st == nil {
		rf, err := os.OpenFile(name, flag, perm)
		if err != nil {
			return nil, err
		}
		return &File{real: rf}, nil
	}
	p := st.abs(name)
	writing := flag&(os.O_WRONLY|os.O_RDWR) != 0
	op := "open-r"
	if writing || flag&(os.O_CREATE|os.O_TRUNC) != 0 {
		op = "open-w"
	}
	ord := -1
	if op == "open-r" {
		ord = st.opens[p]
		st.opens[p]++
	}
	idx, dec := begin(op, p, 0)
	if dec.kind == Fail {
		return nil, end(idx, dec, pathErr("open", name, dec.errno))
	}
	opened := p
	p, n, e := st.resolve(p) // a link is followed; a dangling one is created at its target with O_CREATE
	switch {
	case e == syscall.ENOENT && flag&os.O_CREATE != 0:
		// does the parent exist?
		if pe := st.canWriteDir(filepath.Dir(p)); pe != 0 {
			return nil, end(idx, dec, pathErr("open", name, pe))
		}
		n = &Inode{Mode: perm.Perm(), MTime: nowNS()}
		st.disk.Files[p] = n
	case e != 0:
		return nil, end(idx, dec, pathErr("open", name, e))
	default:
		if flag&os.O_CREATE != 0 && flag&os.O_EXCL != 0 {
			return nil, end(idx, dec, pathErr("open", name, syscall.EEXIST))
		}
		if n.IsDir() && writing {
			return nil, end(idx, dec, pathErr("open", name, syscall.EISDIR))
		}
		if !st.disk.Root {
			if writing && n.Mode&0o200 == 0 {
				return nil, end(idx, dec, pathErr("open", name, syscall.EACCES))
			}
			if (!writing || flag&os.O_RDWR != 0) && n.Mode&0o400 == 0 {
				return nil, end(idx, dec, pathErr("open", name, syscall.EACCES))
			}
		}
		if flag&os.O_TRUNC != 0 && writing && !n.IsDir() {
			n.Data = nil
			n.MTime = nowNS()
		}
	}
	f := &File{name: name, path: opened, ino: n, flag: flag, ord: ord} // events are named by the path the code used
	return f, end(idx, dec, nil)
}

// File is the simulated *os.File.
type File struct {
	real   *os.File
	name   string
	path   string
	ino    *Inode
	flag   int
	off    int
	closed bool
	stdin  bool
	ord    int // ordinal of the open-for-reading event that produced this descriptor
}

// Stdin replaces os.Stdin.
var Stdin = &File{stdin: true, name: "/dev/stdin"}

func (f *File) Name() string {
	if f.real != nil {
		return f.real.Name()
	}
	return f.name
}

func (f *File) Read(b []byte) (int, error) {
	if f.stdin {
		if st == nil {
			return os.Stdin.Read(b)
		}
		if len(st.disk.Stdin) == 0 {
			return 0, io.EOF
		}
		chunk := st.disk.Stdin
		if st.disk.StdinTTY {
			// a terminal in canonical mode hands over one line per read
			if i := strings.IndexByte(string(chunk), '\n'); i >= 0 {
				chunk = chunk[:i+1]
			}
		}
		n := copy(b, chunk)
		st.disk.Stdin = st.disk.Stdin[n:]
		return n, nil
	}
	if f.real != nil {
		return f.real.Read(b)
	}
	if f.closed {
		return 0, pathErr("read", f.name, syscall.EBADF)
	}
	if f.ino.IsDir() {
		return 0, pathErr("read", f.name, syscall.EISDIR)
	}
	if len(b) == 0 {
		return 0, nil
	}
	st.curOrd = f.ord
	idx, dec := begin("read", f.path, 0)
	st.curOrd = -1
	if dec.kind == Fail {
		return 0, end(idx, dec, pathErr("read", f.name, dec.errno))
	}
	if f.off >= len(f.ino.Data) {
		end(idx, dec, nil)
		return 0, io.EOF
	}
	n := copy(b, f.ino.Data[f.off:])
	f.off += n
	st.trace[idx].N = n
	return n, end(idx, dec, nil)
}

func (f *File) readAll() ([]byte, error) {
	if f.ino.IsDir() {
		idx, dec := begin("read", f.path, 0)
		return nil, end(idx, dec, pathErr("read", f.name, syscall.EISDIR))
	}
	st.curOrd = f.ord
	idx, dec := begin("read", f.path, len(f.ino.Data))
	st.curOrd = -1
	if dec.kind == Fail {
		return nil, end(idx, dec, pathErr("read", f.name, dec.errno))
	}
	out := append([]byte{}, f.ino.Data[f.off:]...)
	f.off = len(f.ino.Data)
	return out, end(idx, dec, nil)
}

func (f *File) ReadAt(b []byte, off int64) (int, error) {
	if f.real != nil {
		return f.real.ReadAt(b, off)
	}
	if int(off) >= len(f.ino.Data) {
		return 0, io.EOF
	}
	n := copy(b, f.ino.Data[off:])
	if n < len(b) {
		return n, io.EOF
	}
	return n, nil
}

func (f *File) Seek(offset int64, whence int) (int64, error) {
	if f.real != nil {
		return f.real.Seek(offset, whence)
	}
	switch whence {
	case io.SeekStart:
		f.off = int(offset)
	case io.SeekCurrent:
		f.off += int(offset)
	case io.SeekEnd:
		f.off = len(f.ino.Data) + int(offset)
	}
	if f.off < 0 {
		f.off = 0
		return 0, pathErr("seek", f.name, syscall.EINVAL)
	}
	return int64(f.off), nil
}

func (f *File) Write(b []byte) (int, error) {
	if f.real != nil {
		return f.real.Write(b)
	}
	if f.closed || f.stdin {
		return 0, pathErr("write", f.name, syscall.EBADF)
	}
	if f.flag&(os.O_WRONLY|os.O_RDWR) == 0 {
		return 0, pathErr("write", f.name, syscall.EBADF)
	}
	idx, dec := begin("write", f.path, len(b))
	k := len(b)
	var werr error
	switch dec.kind {
	case Fail:
		return 0, end(idx, dec, pathErr("write", f.name, dec.errno))
	case Short, Torn:
		if dec.k < k {
			k = dec.k
		}
		if k < 0 {
			k = 0
		}
		if dec.kind == Short {
			werr = pathErr("write", f.name, dec.errno)
		}
	}
	if q := st.disk.Quota; q > 0 && dec.kind == "" {
		used := st.disk.TotalBytes()
		grow := f.growth(k)
		if used+grow > q {
			room := q - used
			if room < 0 {
				room = 0
			}
			// bytes that still fit
			k = k - (grow - room)
			if k < 0 {
				k = 0
			}
			werr = pathErr("write", f.name, syscall.ENOSPC)
			st.fired["quota"]++
			st.trace[idx].Flt = "quota"
		}
	}
	f.apply(b[:k])
	st.trace[idx].N = k
	if dec.kind == Torn {
		kill(idx, dec)
	}
	return k, end(idx, dec, werr)
}

func (f *File) growth(k int) int {
	off := f.off
	if f.flag&os.O_APPEND != 0 {
		off = len(f.ino.Data)
	}
	if off+k > len(f.ino.Data) {
		return off + k - len(f.ino.Data)
	}
	return 0
}

func (f *File) apply(b []byte) {
	if len(b) == 0 {
		return
	}
	off := f.off
	if f.flag&os.O_APPEND != 0 {
		off = len(f.ino.Data)
	}
	if off > len(f.ino.Data) {
		f.ino.Data = append(f.ino.Data, make([]byte, off-len(f.ino.Data))...)
	}
	if off+len(b) > len(f.ino.Data) {
		f.ino.Data = append(f.ino.Data[:off], b...)
	} else {
		copy(f.ino.Data[off:], b)
	}
	f.off = off + len(b)
	f.ino.MTime = nowNS()
}

func (f *File) WriteString(s string) (int, error) { return f.Write([]byte(s)) }

func (f *File) Sync() error {
	if f.real != nil {
		return f.real.Sync()
	}
	idx, dec := begin("fsync", f.path, 0)
	if dec.kind == Fail {
		return end(idx, dec, pathErr("sync", f.name, dec.errno))
	}
	return end(idx, dec, nil)
}

func (f *File) Close() error {
	if f.real != nil {
		return f.real.Close()
	}
	if f.stdin {
		return nil
	}
	if f.closed {
		return pathErr("close", f.name, syscall.EBADF)
	}
	f.closed = true
	idx, dec := begin("close", f.path, 0)
	if dec.kind == Fail {
		return end(idx, dec, pathErr("close", f.name, dec.errno))
	}
	return end(idx, dec, nil)
}

func (f *File) closeQuiet() { f.closed = true }

func (f *File) Stat() (fs.FileInfo, error) {
	if f.real != nil {
		return f.real.Stat()
	}
	if f.stdin {
		return fileInfo{name: "stdin", mode: fs.ModeCharDevice}, nil
	}
	return infoOf(f.path, f.ino), nil
}

func (f *File) Chmod(mode fs.FileMode) error {
	if f.real != nil {
		return f.real.Chmod(mode)
	}
	return Chmod(f.path, mode)
}

func (f *File) Truncate(size int64) error {
	if f.real != nil {
		return f.real.Truncate(size)
	}
	return Truncate(f.path, size)
}

func (f *File) Fd() uintptr {
	if f.real != nil {
		return f.real.Fd()
	}
	return ^uintptr(0)
}

func Mkdir(name string, perm fs.FileMode) error {
	if st == nil {
		return os.Mkdir(name, perm)
	}
	p := st.abs(name)
	idx, dec := begin("mkdir", p, 0)
	if dec.kind == Fail {
		return end(idx, dec, pathErr("mkdir", name, dec.errno))
	}
	if _, e := st.lookup(p); e == 0 {
		return end(idx, dec, pathErr("mkdir", name, syscall.EEXIST))
	} else if e != syscall.ENOENT {
		return end(idx, dec, pathErr("mkdir", name, e))
	}
	if e := st.canWriteDir(filepath.Dir(p)); e != 0 {
		return end(idx, dec, pathErr("mkdir", name, e))
	}
	st.disk.Files[p] = &Inode{Mode: fs.ModeDir | perm.Perm(), MTime: nowNS()}
	return end(idx, dec, nil)
}

func MkdirAll(name string, perm fs.FileMode) error {
	if st == nil {
		return os.MkdirAll(name, perm)
	}
	p := st.abs(name)
	// fast path, as in the real implementation: stat first
	if n, e := st.lookup(p); e == 0 {
		idx, dec := begin("stat", p, 0)
		if dec.kind == Fail {
			return end(idx, dec, pathErr("mkdir", name, dec.errno))
		}
		if n.IsDir() {
			return end(idx, dec, nil)
		}
		return end(idx, dec, pathErr("mkdir", name, syscall.ENOTDIR))
	}
	parent := filepath.Dir(p)
	if parent != p {
		if err := MkdirAll(parent, perm); err != nil {
			return err
		}
	}
	err := Mkdir(p, perm)
	if err != nil {
		if n, e := st.lookup(p); e == 0 && n.IsDir() {
			return nil
		}
		return err
	}
	return nil
}

func Remove(name string) error {
	if st == nil {
		return os.Remove(name)
	}
	p := st.abs(name)
	idx, dec := begin("remove", p, 0)
	if dec.kind == Fail {
		return end(idx, dec, pathErr("remove", name, dec.errno))
	}
	n, e := st.lookup(p)
	if e != 0 {
		return end(idx, dec, pathErr("remove", name, e))
	}
	if e := st.canWriteDir(filepath.Dir(p)); e != 0 {
		return end(idx, dec, pathErr("remove", name, e))
	}
	if n.IsDir() {
		for k := range st.disk.Files {
			if strings.HasPrefix(k, p+"/") {
				return end(idx, dec, pathErr("remove", name, syscall.ENOTEMPTY))
			}
		}
	}
	delete(st.disk.Files, p)
	return end(idx, dec, nil)
}

func RemoveAll(name string) error {
	if st == nil {
		return os.RemoveAll(name)
	}
	p := st.abs(name)
	idx, dec := begin("remove", p, 0)
	if dec.kind == Fail {
		return end(idx, dec, pathErr("unlinkat", name, dec.errno))
	}
	st.disk.RemoveRaw(p)
	return end(idx, dec, nil)
}

func Rename(oldname, newname string) error {
	if st == nil {
		return os.Rename(oldname, newname)
	}
	op, np := st.abs(oldname), st.abs(newname)
	idx, dec := begin("rename", np, 0)
	lerr := func(e syscall.Errno) error {
		return &os.LinkError{Op: "rename", Old: oldname, New: newname, Err: e}
	}
	if dec.kind == Fail {
		return end(idx, dec, lerr(dec.errno))
	}
	n, e := st.lookup(op)
	if e != 0 {
		return end(idx, dec, lerr(e))
	}
	if st.disk.mountOf(op) != st.disk.mountOf(np) {
		return end(idx, dec, lerr(syscall.EXDEV))
	}
	if e := st.canWriteDir(filepath.Dir(op)); e != 0 {
		return end(idx, dec, lerr(e))
	}
	if e := st.canWriteDir(filepath.Dir(np)); e != 0 {
		return end(idx, dec, lerr(e))
	}
	if t, e := st.lookup(np); e == 0 {
		if t.IsDir() && !n.IsDir() {
			return end(idx, dec, lerr(syscall.EISDIR))
		}
		if !t.IsDir() && n.IsDir() {
			return end(idx, dec, lerr(syscall.ENOTDIR))
		}
		if t.IsDir() {
			for k := range st.disk.Files {
				if strings.HasPrefix(k, np+"/") {
					return end(idx, dec, lerr(syscall.ENOTEMPTY))
				}
			}
		}
	}
	if n.IsDir() {
		moved := map[string]*Inode{}
		for k, v := range st.disk.Files {
			if strings.HasPrefix(k, op+"/") {
				moved[np+k[len(op):]] = v
				delete(st.disk.Files, k)
			}
		}
		for k, v := range moved {
			st.disk.Files[k] = v
		}
	}
	delete(st.disk.Files, op)
	st.disk.Files[np] = n
	return end(idx, dec, nil)
}

func Chmod(name string, mode fs.FileMode) error {
	if st == nil {
		return os.Chmod(name, mode)
	}
	p := st.abs(name)
	idx, dec := begin("chmod", p, 0)
	if dec.kind == Fail {
		return end(idx, dec, pathErr("chmod", name, dec.errno))
	}
	_, n, e := st.resolve(p)
	if e != 0 {
		return end(idx, dec, pathErr("chmod", name, e))
	}
	n.Mode = n.Mode&fs.ModeDir | mode.Perm()
	return end(idx, dec, nil)
}

func Truncate(name string, size int64) error {
	if st == nil {
		return os.Truncate(name, size)
	}
	p := st.abs(name)
	idx, dec := begin("truncate", p, 0)
	if dec.kind == Fail {
		return end(idx, dec, pathErr("truncate", name, dec.errno))
	}
	n, e := st.lookup(p)
	if e != 0 {
		return end(idx, dec, pathErr("truncate", name, e))
	}
	if n.IsDir() {
		return end(idx, dec, pathErr("truncate", name, syscall.EISDIR))
	}
	if int(size) < len(n.Data) {
		n.Data = n.Data[:size]
	} else {
		n.Data = append(n.Data, make([]byte, int(size)-len(n.Data))...)
	}
	return end(idx, dec, nil)
}

func ReadDir(name string) ([]fs.DirEntry, error) {
	if st == nil {
		return os.ReadDir(name)
	}
	p := st.abs(name)
	idx, dec := begin("readdir", p, 0)
	if dec.kind == Fail {
		return nil, end(idx, dec, pathErr("open", name, dec.errno))
	}
	p, n, e := st.resolve(p)
	if e != 0 {
		return nil, end(idx, dec, pathErr("open", name, e))
	}
	if !n.IsDir() {
		return nil, end(idx, dec, pathErr("readdirent", name, syscall.ENOTDIR))
	}
	if !st.disk.Root && n.Mode&0o400 == 0 {
		return nil, end(idx, dec, pathErr("open", name, syscall.EACCES))
	}
	var out []fs.DirEntry
	prefix := p + "/"
	if p == "/" {
		prefix = "/"
	}
	var names []string
	for k := range st.disk.Files {
		if k != p && strings.HasPrefix(k, prefix) && !strings.Contains(k[len(prefix):], "/") {
			names = append(names, k)
		}
	}
	sort.Strings(names)
	for _, k := range names {
		out = append(out, dirEntry{infoOf(k, st.disk.Files[k])})
	}
	return out, end(idx, dec, nil)
}

func CreateTemp(dir, pattern string) (*File, error) {
	if st == nil {
		rf, err := os.CreateTemp(dir, pattern)
		if err != nil {
			return nil, err
		}
		return &File{real: rf}, nil
	}
	if dir == "" {
		dir = TempDir()
	}
	prefix, suffix := pattern, ""
	if i := strings.LastIndex(pattern, "*"); i >= 0 {
		prefix, suffix = pattern[:i], pattern[i+1:]
	}
	for try := 0; try < 10000; try++ {
		st.disk.Temps++
		name := filepath.Join(dir, prefix+strconv.Itoa(100000+st.disk.Temps)+suffix)
		f, err := OpenFile(name, os.O_RDWR|os.O_CREATE|os.O_EXCL, 0o600)
		if errors.Is(err, fs.ErrExist) {
			continue
		}
		return f, err
	}
	return nil, pathErr("createtemp", dir, syscall.EEXIST)
}

func MkdirTemp(dir, pattern string) (string, error) {
	if st == nil {
		return os.MkdirTemp(dir, pattern)
	}
	if dir == "" {
		dir = TempDir()
	}
	prefix, suffix := pattern, ""
	if i := strings.LastIndex(pattern, "*"); i >= 0 {
		prefix, suffix = pattern[:i], pattern[i+1:]
	}
	for try := 0; try < 10000; try++ {
		st.disk.Temps++
		name := filepath.Join(dir, prefix+strconv.Itoa(100000+st.disk.Temps)+suffix)
		err := Mkdir(name, 0o700)
		if errors.Is(err, fs.ErrExist) {
			continue
		}
		return name, err
	}
	return "", pathErr("mkdirtemp", dir, syscall.EEXIST)
}

func Link(oldname, newname string) error {
	if st == nil {
		return os.Link(oldname, newname)
	}
	return &os.LinkError{Op: "link", Old: oldname, New: newname, Err: syscall.EPERM}
}

func Symlink(oldname, newname string) error {
	if st == nil {
		return os.Symlink(oldname, newname)
	}
	p := st.abs(newname)
	idx, dec := begin("symlink", p, 0)
	if dec.kind == Fail {
		return end(idx, dec, &os.LinkError{Op: "symlink", Old: oldname, New: newname, Err: dec.errno})
	}
	if _, e := st.lookup(p); e == 0 {
		return end(idx, dec, &os.LinkError{Op: "symlink", Old: oldname, New: newname, Err: syscall.EEXIST})
	}
	if pe := st.canWriteDir(filepath.Dir(p)); pe != 0 {
		return end(idx, dec, &os.LinkError{Op: "symlink", Old: oldname, New: newname, Err: pe})
	}
	st.disk.Files[p] = &Inode{Mode: fs.ModeSymlink | 0o777, Link: oldname, MTime: nowNS()}
	return end(idx, dec, nil)
}

func SameFile(a, b fs.FileInfo) bool {
	if st == nil {
		return os.SameFile(a, b)
	}
	return a == b
}

func TempDir() string {
	if st == nil {
		return os.TempDir()
	}
	if d := st.disk.Env["TMPDIR"]; d != "" {
		return d
	}
	return "/tmp"
}

func Getwd() (string, error) {
	if st == nil {
		return os.Getwd()
	}
	if _, e := st.lookup(st.disk.Cwd); e != 0 {
		return "", pathErr("getwd", ".", e)
	}
	return st.disk.Cwd, nil
}

func Chdir(dir string) error {
	if st == nil {
		return os.Chdir(dir)
	}
	p := st.abs(dir)
	n, e := st.lookup(p)
	if e != 0 {
		return pathErr("chdir", dir, e)
	}
	if !n.IsDir() {
		return pathErr("chdir", dir, syscall.ENOTDIR)
	}
	st.disk.Cwd = p
	return nil
}

func Getenv(key string) string {
	if st == nil {
		return os.Getenv(key)
	}
	return st.disk.Env[key]
}

func LookupEnv(key string) (string, bool) {
	if st == nil {
		return os.LookupEnv(key)
	}
	v, ok := st.disk.Env[key]
	return v, ok
}

func Setenv(key, value string) error {
	if st == nil {
		return os.Setenv(key, value)
	}
	st.disk.Env[key] = value
	return nil
}

func Unsetenv(key string) error {
	if st == nil {
		return os.Unsetenv(key)
	}
	delete(st.disk.Env, key)
	return nil
}

func Environ() []string {
	if st == nil {
		return os.Environ()
	}
	var out []string
	for k, v := range st.disk.Env {
		out = append(out, k+"="+v)
	}
	sort.Strings(out)
	return out
}

func ExpandEnv(s string) string {
	if st == nil {
		return os.ExpandEnv(s)
	}
	return os.Expand(s, Getenv)
}

func UserHomeDir() (string, error) {
	if st == nil {
		return os.UserHomeDir()
	}
	if v := st.disk.Env["HOME"]; v != "" {
		return v, nil
	}
	return "", errors.New("$HOME is not defined")
}

func UserConfigDir() (string, error) {
	if st == nil {
		return os.UserConfigDir()
	}
	dir := st.disk.Env["XDG_CONFIG_HOME"]
	if dir == "" {
		dir = st.disk.Env["HOME"]
		if dir == "" {
			return "", errors.New("neither $XDG_CONFIG_HOME nor $HOME are defined")
		}
		dir += "/.config"
	} else if !filepath.IsAbs(dir) {
		return "", errors.New("path in $XDG_CONFIG_HOME is relative")
	}
	return dir, nil
}

func UserCacheDir() (string, error) {
	if st == nil {
		return os.UserCacheDir()
	}
	dir := st.disk.Env["XDG_CACHE_HOME"]
	if dir == "" {
		dir = st.disk.Env["HOME"]
		if dir == "" {
			return "", errors.New("neither $XDG_CACHE_HOME nor $HOME are defined")
		}
		dir += "/.cache"
	} else if !filepath.IsAbs(dir) {
		return "", errors.New("path in $XDG_CACHE_HOME is relative")
	}
	return dir, nil
}

func Executable() (string, error) {
	if st == nil {
		return os.Executable()
	}
	return st.disk.Exe, nil
}

func Hostname() (string, error) {
	if st == nil {
		return os.Hostname()
	}
	return "simhost", nil
}

// Getpid / Getppid: process ids differ between runs of the same case; the simulated process always has the same ones.
func Getpid() int {
	if st == nil {
		return os.Getpid()
	}
	return 4242
}

func Getppid() int {
	if st == nil {
		return os.Getppid()
	}
	return 4241
}

func Getuid() int {
	if st == nil {
		return os.Getuid()
	}
	if st.disk.Root {
		return 0
	}
	return 1000
}

func Geteuid() int { return Getuid() }

func Exit(code int) {
	if st == nil {
		os.Exit(code)
	}
	if st.exitHook != nil {
		st.exitHook(code)
	}
	panic(ExitPanic{Code: code})
}
