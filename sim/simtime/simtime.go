// Package simtime is the simulated clock. verif-rewrite redirects time.Now, time.Since,
// time.Until and time.Sleep of the code under test to it. The clock moves only when the
// case says so (Advance, Set) or when the code under test sleeps; there is no tick per
// reading. Values carry no monotonic reading. Until Install is called the package passes
// through to the real clock (used when the repository's own tests run on the
// instrumented tree).
package simtime

import (
	"time"

	"github.com/Vedant9500/WTF/zz_verif/sim/simrt"
)

var (
	installed bool
	nowNS     int64
	sleeps    []time.Duration
	reads     int64
)

// Epoch is the default start of simulated time.
var Epoch = time.Date(2026, 1, 15, 12, 0, 0, 0, time.UTC)

//go:norace
func Install(start time.Time) {
	installed = true
	nowNS = start.UnixNano()
	sleeps = nil
	reads = 0
	resetTimers()
}

//go:norace
func Uninstall() { installed = false }

//go:norace
func Installed() bool { return installed }

//go:norace
func Now() time.Time {
	if !installed {
		return time.Now()
	}
	reads++
	return time.Unix(0, nowNS).UTC()
}

//go:norace
func NowNS() int64 { return nowNS }

func Since(t time.Time) time.Duration {
	if !Installed() {
		return time.Since(t)
	}
	return Now().Sub(t)
}

func Until(t time.Time) time.Duration {
	if !Installed() {
		return time.Until(t)
	}
	return t.Sub(Now())
}

func Sleep(d time.Duration) {
	if !Installed() {
		time.Sleep(d)
		return
	}
	if simrt.Concurrent() {
		// several tasks: the sleeper waits for a timer of its own; the others run meanwhile, and when everybody
		// waits the clock jumps to the earliest timer (which may be this one)
		t := newTimer(d, 0, nil)
		for !timerFired(t) {
			simrt.Pause()
		}
		return
	}
	sleepNow(d)
}

//go:norace
func timerFired(t *Timer) bool { return t.fired }

//go:norace
func sleepNow(d time.Duration) {
	sleeps = append(sleeps, d)
	if d > 0 {
		nowNS += int64(d)
	}
	fireDue()
}

// Advance moves the simulated clock forward (harness only).
//
//go:norace
func Advance(d time.Duration) { nowNS += int64(d); fireDue() }

// Set steps the clock to an absolute instant (between simulated processes).
//
//go:norace
func Set(t time.Time) { nowNS = t.UnixNano(); fireDue() }

// Sleeps returns the durations the code under test slept, in order.
//
//go:norace
func Sleeps() []time.Duration { return append([]time.Duration(nil), sleeps...) }

//go:norace
func ResetSleeps() { sleeps = nil }

//go:norace
func Reads() int64 { return reads }
