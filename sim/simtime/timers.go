package simtime

// Timers and tickers of the code under test on the simulated clock (time.NewTimer, time.After, time.AfterFunc,
// time.NewTicker, time.Tick and the types time.Timer / time.Ticker are redirected here by verif-rewrite).
//
// Discrete-event rule: the clock moves when the case says so, when the code sleeps, and when every task of the
// simulated run is waiting - then it jumps to the next timer (simrt calls NextEvent through its idle hooks) and the
// jump is recorded like a sleep, so that a wait implemented as `<-time.After(d)` or `<-timer.C` counts as the same
// wait as `time.Sleep(d)`. Without Install the functions pass through to the real package.

import (
	"time"

	"github.com/Vedant9500/WTF/zz_verif/sim/simrt"
)

// Timer stands in for time.Timer.
type Timer struct {
	C      <-chan time.Time
	c      chan time.Time
	when   int64
	period int64
	fn     func()
	live   bool
	fired  bool
	real   *time.Timer
}

// Ticker stands in for time.Ticker.
type Ticker struct {
	C    <-chan time.Time
	t    *Timer
	real *time.Ticker
}

var pending []*Timer // simulated timers that have not fired; touched by the task that runs (or the idle scheduler)

//go:norace
func addTimer(t *Timer) {
	t.live = true
	// insertion keeps the list ordered by time, then by arrival (no closure here: a function literal inside a
	// norace function is instrumented on its own and would show the simulator's bookkeeping to the race detector)
	i := len(pending)
	pending = append(pending, t)
	for i > 0 && pending[i-1].when > t.when {
		pending[i] = pending[i-1]
		i--
	}
	pending[i] = t
}

//go:norace
func dropTimer(t *Timer) bool {
	was := t.live
	t.live = false
	for i, q := range pending {
		if q == t {
			pending = append(pending[:i:i], pending[i+1:]...)
			break
		}
	}
	return was
}

//go:norace
func resetTimers() { pending = nil }

// fireDue fires every timer whose time has come, in time order.
//
//go:norace
func fireDue() {
	spawned := false
	defer func() {
		if spawned {
			simrt.Pause() // let the timer functions run first, as a freshly woken goroutine usually does
		}
	}()
	for len(pending) > 0 && pending[0].when <= nowNS {
		t := pending[0]
		pending = pending[1:]
		t.live = false
		t.fired = true
		if t.fn != nil {
			// AfterFunc: the runtime runs the function on a goroutine of its own. Inside a scheduled run it becomes
			// a task (the caller may hold a lock the function needs); when the idle scheduler moved the clock there
			// is no caller and it runs right here.
			if simrt.Concurrent() || simrt.InRun() {
				fn := t.fn
				go simrt.GoRun(simrt.Spawn("time.AfterFunc"), fn)
				spawned = true
			} else {
				t.fn()
			}
		} else {
			select {
			case t.c <- time.Unix(0, t.when).UTC():
			default: // a tick nobody collected is dropped, as the runtime does
			}
		}
		if t.period > 0 {
			t.when += t.period
			addTimer(t)
		}
	}
}

// NextEvent jumps the clock to the earliest pending timer and fires it; false when there is none. The jump is
// recorded among the sleeps.
//
//go:norace
func NextEvent() bool {
	if !installed || len(pending) == 0 {
		return false
	}
	if d := pending[0].when - nowNS; d > 0 {
		sleeps = append(sleeps, time.Duration(d))
		nowNS = pending[0].when
	}
	fireDue()
	return true
}

func init() {
	simrt.IdleHook = NextEvent
}

// deadline is now + d without wrapping around (a lifetime of MaxInt64 means "never", not "in the past").
func deadline(d time.Duration) int64 {
	now := NowNS()
	if d > 0 && now+int64(d) < now {
		return 1<<63 - 1
	}
	return now + int64(d)
}

func newTimer(d time.Duration, period time.Duration, fn func()) *Timer {
	t := &Timer{c: make(chan time.Time, 1), when: deadline(d), period: int64(period), fn: fn}
	t.C = t.c
	addTimer(t)
	fireDue()
	return t
}

func NewTimer(d time.Duration) *Timer {
	if !Installed() {
		r := time.NewTimer(d)
		return &Timer{C: r.C, real: r}
	}
	return newTimer(d, 0, nil)
}

func After(d time.Duration) <-chan time.Time { return NewTimer(d).C }

func AfterFunc(d time.Duration, f func()) *Timer {
	if !Installed() {
		return &Timer{real: time.AfterFunc(d, f)}
	}
	return newTimer(d, 0, f)
}

func (t *Timer) Stop() bool {
	if t.real != nil {
		return t.real.Stop()
	}
	return dropTimer(t)
}

func (t *Timer) Reset(d time.Duration) bool {
	if t.real != nil {
		return t.real.Reset(d)
	}
	was := dropTimer(t)
	t.when = deadline(d)
	addTimer(t)
	fireDue()
	return was
}

func NewTicker(d time.Duration) *Ticker {
	if d <= 0 {
		panic("non-positive interval for NewTicker")
	}
	if !Installed() {
		r := time.NewTicker(d)
		return &Ticker{C: r.C, real: r}
	}
	t := newTimer(d, d, nil)
	return &Ticker{C: t.C, t: t}
}

func Tick(d time.Duration) <-chan time.Time {
	if d <= 0 {
		return nil
	}
	return NewTicker(d).C
}

func (k *Ticker) Stop() {
	if k.real != nil {
		k.real.Stop()
		return
	}
	dropTimer(k.t)
}

func (k *Ticker) Reset(d time.Duration) {
	if k.real != nil {
		k.real.Reset(d)
		return
	}
	dropTimer(k.t)
	k.t.period = int64(d)
	k.t.when = deadline(d)
	addTimer(k.t)
}
