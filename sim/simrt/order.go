// Package simrt is the run-time half of the simulator seams that verif-rewrite inserts
// into a scratch copy of the repository: map iteration order, lock/atomic yield points
// for the cooperative scheduler, and engine taps.
package simrt

import (
	"fmt"
	"iter"
	"reflect"
	"sort"
	"sync"
)

// Map iteration order modes.
const (
	OrderCanonical = iota // sorted keys: the engine becomes a deterministic function
	OrderScript           // sorted keys, then a Fisher-Yates shuffle driven by the case's script
	OrderNative           // the Go runtime's order (pass-through)
)

type orderState struct {
	mode     int
	script   []uint32
	seed     uint64 // when != 0: words beyond the script come from splitmix(seed, position)
	mask     uint32 // when != 0: only sites whose hash bit is set are permuted
	pos      int
	permuted map[string]int // site -> number of loops that got a non-identity order
	loops    int            // loops with >=2 keys seen in script mode
	ptrKeyed map[string]int // sites ranging over pointer-keyed maps (left in runtime order)
}

var ord = orderState{mode: OrderCanonical}

// SetOrderCanonical makes every map loop iterate in sorted key order.
func SetOrderCanonical() { ord = orderState{mode: OrderCanonical} }

// SetOrderNative leaves map loops to the Go runtime.
func SetOrderNative() { ord = orderState{mode: OrderNative} }

// SetOrderScript makes every map loop iterate in an order derived from script:
// keys are sorted, then shuffled with j = script[next] mod (i+1); when the script is
// exhausted the remaining loops are canonical, so scripts shrink towards "canonical
// everywhere except the loop that matters".
func SetOrderScript(script []uint32) {
	ord = orderState{mode: OrderScript, script: script, permuted: map[string]int{}, ptrKeyed: map[string]int{}}
}

// SetOrderPlan is SetOrderScript plus a seed that supplies pseudo-random words once the
// explicit script is used up (seed 0 = identity beyond the script) and a 32-bit site
// mask: when non-zero only loops whose site hashes to a set bit are permuted, so a
// shrunk case names few loops.
func SetOrderPlan(script []uint32, seed uint64, mask uint32) {
	ord = orderState{mode: OrderScript, script: script, seed: seed, mask: mask, permuted: map[string]int{}, ptrKeyed: map[string]int{}}
}

// SiteBit is the mask bit of a site.
func SiteBit(site string) uint32 {
	h := uint32(2166136261)
	for i := 0; i < len(site); i++ {
		h ^= uint32(site[i])
		h *= 16777619
	}
	return 1 << (h % 32)
}

func mix64(x uint64) uint64 {
	x += 0x9e3779b97f4a7c15
	x = (x ^ (x >> 30)) * 0xbf58476d1ce4e5b9
	x = (x ^ (x >> 27)) * 0x94d049bb133111eb
	return x ^ (x >> 31)
}

// OrderReport returns, for script mode, the sites whose loops received a non-identity
// permutation, the number of multi-key loops seen and the script words consumed.
func OrderReport() (permuted map[string]int, loops, consumed int) {
	return ord.permuted, ord.loops, ord.pos
}

// MapRange is what `for k, v := range m` becomes in the instrumented tree.
func MapRange[M ~map[K]V, K comparable, V any](m M, site string) iter.Seq2[K, V] {
	return func(yield func(K, V) bool) {
		if getOrderMode() == OrderNative {
			for k, v := range m {
				if !yield(k, v) {
					return
				}
			}
			return
		}
		keys := make([]K, 0, len(m))
		for k := range m {
			keys = append(keys, k)
		}
		if len(keys) > 1 {
			if !sortKeys(keys) {
				if ord.ptrKeyed != nil {
					ord.ptrKeyed[site]++
				}
			} else if getOrderMode() == OrderScript {
				permute(keys, site)
			}
		}
		for _, k := range keys {
			v, ok := m[k]
			if !ok {
				continue // deleted during iteration: the spec says it is not produced
			}
			if !yield(k, v) {
				return
			}
		}
	}
}

//go:norace
func getOrderMode() int { return ord.mode }

func permute[K any](keys []K, site string) {
	ord.loops++
	if ord.mask != 0 && ord.mask&SiteBit(site) == 0 {
		return
	}
	moved := false
	for i := len(keys) - 1; i > 0; i-- {
		var w uint32
		if ord.pos < len(ord.script) {
			w = ord.script[ord.pos]
		} else if ord.seed != 0 {
			w = uint32(mix64(ord.seed+uint64(ord.pos)*0x9e3779b97f4a7c15) >> 16)
		} else {
			break
		}
		j := int(w % uint32(i+1))
		ord.pos++
		if j != i {
			keys[i], keys[j] = keys[j], keys[i]
			moved = true
		}
	}
	if moved {
		ord.permuted[site]++
	}
}

// sortKeys puts keys in a canonical order; it reports false (and leaves the slice
// alone) for key kinds that have no run-independent order (pointers, channels).
func sortKeys[K any](keys []K) bool {
	switch ks := any(keys).(type) {
	case []string:
		sort.Strings(ks)
		return true
	case []int:
		sort.Ints(ks)
		return true
	}
	rv := reflect.ValueOf(keys)
	switch rv.Type().Elem().Kind() {
	case reflect.String:
		sort.SliceStable(keys, func(i, j int) bool { return rv.Index(i).String() < rv.Index(j).String() })
	case reflect.Int, reflect.Int8, reflect.Int16, reflect.Int32, reflect.Int64:
		sort.SliceStable(keys, func(i, j int) bool { return rv.Index(i).Int() < rv.Index(j).Int() })
	case reflect.Uint, reflect.Uint8, reflect.Uint16, reflect.Uint32, reflect.Uint64, reflect.Uintptr:
		sort.SliceStable(keys, func(i, j int) bool { return rv.Index(i).Uint() < rv.Index(j).Uint() })
	case reflect.Float32, reflect.Float64:
		sort.SliceStable(keys, func(i, j int) bool { return rv.Index(i).Float() < rv.Index(j).Float() })
	case reflect.Bool:
		sort.SliceStable(keys, func(i, j int) bool { return !rv.Index(i).Bool() && rv.Index(j).Bool() })
	case reflect.Pointer, reflect.Chan, reflect.UnsafePointer, reflect.Func:
		return false
	default:
		// structs, arrays, interfaces: order by printed form; values that contain
		// pointers would not be run-independent, which the determinism self-test exposes.
		strs := make([]string, len(keys))
		for i := range keys {
			strs[i] = fmt.Sprintf("%#v", keys[i])
		}
		idx := make([]int, len(keys))
		for i := range idx {
			idx[i] = i
		}
		sort.SliceStable(idx, func(a, b int) bool { return strs[idx[a]] < strs[idx[b]] })
		out := make([]K, len(keys))
		for i, j := range idx {
			out[i] = keys[j]
		}
		copy(keys, out)
	}
	return true
}

// SyncMapRange replaces m.Range(f) on a sync.Map. The runtime walks a sync.Map in an order that depends on a hash
// seed drawn per map instance; what f does (locks it takes, values it appends) would then differ from one execution of
// a case to the next. The entries are collected first (Range promises no snapshot, so this is one of its legal
// behaviours) and visited in the order of their keys' printed form - or, under a seeded order plan, in an order the
// plan permutes like any other map loop.
func SyncMapRange(m *sync.Map, f func(key, value any) bool, site string) {
	type kv struct {
		k, v any
		s    string
	}
	var all []kv
	m.Range(func(k, v any) bool {
		all = append(all, kv{k, v, fmt.Sprint(k)})
		return true
	})
	sort.SliceStable(all, func(i, j int) bool { return all[i].s < all[j].s })
	idx := make(map[int]struct{}, len(all))
	for i := range all {
		idx[i] = struct{}{}
	}
	for i := range MapRange(idx, site) {
		if !f(all[i].k, all[i].v) {
			return
		}
	}
}
