package simrt

// Channels of the code under test, simulated.
//
// A goroutine that blocks in a channel operation while it holds the run token stalls the whole simulated
// run, and two tasks polling an unbuffered channel never meet. Channels the instrumented code creates
// (`make(chan T, n)` is rewritten to register them) therefore live in a table owned by the token holder:
// buffer, closed flag, and for unbuffered channels the pending senders. The real channel value is only an
// identity. Every operation is a scheduling point; an operation that cannot proceed parks the task until a
// counterpart operation on the same channel releases it. Happens-before edges that the Go memory model
// attaches to channels are reproduced for the race detector with RaceReleaseMerge / RaceAcquire on the
// table entry: send -> receive, close -> receive of the closed state, and receive -> completion of a send
// that had to wait (an over-approximation: more edges than the language promises can only hide a race,
// never invent one).
//
// Channels that were NOT created by instrumented code (ctx.Done(), timers, signal.Notify) are left to
// the runtime: operations on them are tried without blocking and retried at later scheduling points.

import (
	"iter"
	"reflect"
	"time"
	"unsafe"
)

type simChan struct {
	ref     any // the channel itself: while the entry lives, the address cannot be given to another channel
	addr    uint64
	cap     int
	buf     []any
	closed  bool
	senders []*pendingSend // unbuffered (or full) channel: values whose senders wait for a receiver
	waiters []*recvWaiter  // parked receivers (plain receives and receive clauses of parked selects)
	syncFwd byte           // race-detector sync object: sender/closer -> receiver
	syncRev byte           // receiver -> sender that waited
}

type pendingSend struct {
	v      any
	taken  bool
	closed bool // the channel was closed while the sender waited: the send panics
}

// recvWaiter is a parked receiver. The receive clauses of one parked select share the flag: like the runtime,
// which dequeues a selecting goroutine from all its channels at the first match, at most one sender may count
// on it.
type recvWaiter struct{ fired *bool }

//go:norace
func (c *simChan) addWaiter(w *recvWaiter) { c.waiters = append(c.waiters, w) }

//go:norace
func (c *simChan) removeWaiter(w *recvWaiter) {
	for i, q := range c.waiters {
		if q == w {
			c.waiters = append(c.waiters[:i:i], c.waiters[i+1:]...)
			return
		}
	}
}

//go:norace
func (c *simChan) freeWaiter(except *bool) bool {
	for _, w := range c.waiters {
		if !*w.fired && w.fired != except {
			return true
		}
	}
	return false
}

//go:norace
func (c *simChan) hasPending() bool { return len(c.senders) > 0 }

//go:norace
func flagGet(p *bool) bool { return p != nil && *p }

//go:norace
func flagClear(p *bool) {
	if p != nil {
		*p = false
	}
}

//go:norace
func (c *simChan) matchWaiter() {
	for _, w := range c.waiters {
		if !*w.fired {
			*w.fired = true
			return
		}
	}
}

var chans []*simChan // token holder only

//go:norace
func chanReset() { chans = nil }

//go:norace
func chanLookup(a uint64) *simChan {
	for _, c := range chans {
		if c.addr == a {
			return c
		}
	}
	return nil
}

// chanRegister is called for a channel that make has just returned: an entry with the same address belongs to a
// channel the garbage collector has already freed.
//
//go:norace
func chanRegister(a uint64, capacity int, ref any) {
	for i, c := range chans {
		if c.addr == a {
			chans[i] = &simChan{addr: a, cap: capacity, ref: ref}
			return
		}
	}
	chans = append(chans, &simChan{addr: a, cap: capacity, ref: ref})
}

func chanAddr(ch any) uint64 {
	rv := reflect.ValueOf(ch)
	if rv.Kind() != reflect.Chan || rv.IsNil() {
		return 0
	}
	return uint64(rv.Pointer())
}

// MakeChan wraps make(chan T, n): the channel becomes a simulated one for the duration of the run.
func MakeChan[C any](ch C) C {
	if isActive() {
		rv := reflect.ValueOf(ch)
		chanRegister(uint64(rv.Pointer()), rv.Cap(), ch)
	}
	return ch
}

//go:norace
func (c *simChan) trySend(v any) (done bool, p *pendingSend) {
	if c.closed {
		panic("send on closed channel")
	}
	if len(c.buf) < c.cap {
		c.buf = append(c.buf, v)
		return true, nil
	}
	p = &pendingSend{v: v}
	c.senders = append(c.senders, p)
	c.matchWaiter() // a parked receiver, if there is one, is now spoken for
	return false, p
}

//go:norace
func (c *simChan) tryRecv() (v any, ok, ready, fromSender bool) {
	if len(c.buf) > 0 {
		v = c.buf[0]
		c.buf = c.buf[1:]
		// a sender waiting for room moves its value into the buffer
		if len(c.senders) > 0 {
			p := c.senders[0]
			c.senders = c.senders[1:]
			c.buf = append(c.buf, p.v)
			p.taken = true
			fromSender = true
		}
		return v, true, true, fromSender
	}
	if len(c.senders) > 0 {
		p := c.senders[0]
		c.senders = c.senders[1:]
		p.taken = true
		return p.v, true, true, true
	}
	if c.closed {
		return nil, false, true, false
	}
	return nil, false, false, false
}

//go:norace
func (p *pendingSend) isTaken() bool { return p.taken }

//go:norace
func (c *simChan) withdraw(p *pendingSend) {
	for i, q := range c.senders {
		if q == p {
			c.senders = append(c.senders[:i:i], c.senders[i+1:]...)
			return
		}
	}
}

//go:norace
func (c *simChan) isClosed() bool { return c.closed }

//go:norace
func (c *simChan) setClosed() {
	c.closed = true
	for _, p := range c.senders {
		p.closed = true
	}
	c.senders = nil
}

//go:norace
func (p *pendingSend) isClosed() bool { return p.closed }

//go:norace
func (c *simChan) length() int { return len(c.buf) }

// canSend: a send clause of a select can proceed (room in the buffer, or a parked receiver nobody else counts on)
//
//go:norace
func (c *simChan) canSend(own *bool) bool { return c.closed || len(c.buf) < c.cap || c.freeWaiter(own) }

//go:norace
func (c *simChan) canRecv() bool { return len(c.buf) > 0 || len(c.senders) > 0 || c.closed }

func (c *simChan) fwd() unsafe.Pointer { return unsafe.Pointer(&c.syncFwd) }
func (c *simChan) rev() unsafe.Pointer { return unsafe.Pointer(&c.syncRev) }

// ChanSend replaces `ch <- v`.
func ChanSend[T any](ch chan<- T, v T, site string) {
	if !isActive() {
		ch <- v
		return
	}
	a := chanAddr(ch)
	c := chanLookup(a)
	if c == nil { // not ours: try, retry at later scheduling points
		yieldEv(evYield, a)
		for {
			select {
			case ch <- v:
				return
			default:
			}
			if !isActive() {
				ch <- v
				return
			}
			yieldEv(evPoll, a)
		}
	}
	yieldEv(evYield, a)
	raceReleaseMerge(c.fwd())
	done, p := c.trySend(v)
	if done {
		yieldEv(evReleased, a)
		return
	}
	// wait until a receiver has taken the value
	yieldEv(evReleased, a) // a receiver parked on this channel can proceed now
	for !p.isTaken() {
		if p.isClosed() {
			panic("send on closed channel")
		}
		yieldEv(evBlocked, a)
	}
	raceAcquire(c.rev())
}

func chanRecv[T any](ch <-chan T, site string) (v T, ok bool) {
	if !isActive() {
		v, ok = <-ch
		return
	}
	a := chanAddr(ch)
	c := chanLookup(a)
	if ch == nil || c == nil {
		yieldEv(evYield, a)
		for {
			select {
			case v, ok = <-ch:
				return
			default:
			}
			if !isActive() {
				v, ok = <-ch
				return
			}
			yieldEv(evPoll, a)
		}
	}
	yieldEv(evYield, a)
	var w *recvWaiter
	for {
		x, got, ready, fromSender := c.tryRecv()
		if ready {
			if w != nil {
				c.removeWaiter(w)
			}
			raceAcquire(c.fwd())
			if fromSender {
				raceReleaseMerge(c.rev())
			}
			yieldEv(evReleased, a)
			if got {
				if x != nil {
					v = x.(T)
				}
				return v, true
			}
			return v, false
		}
		if w == nil {
			w = &recvWaiter{fired: new(bool)}
			c.addWaiter(w)
			yieldEv(evReleased, a) // a select parked with a send clause on this channel can proceed now
			continue
		}
		yieldEv(evBlocked, a)
	}
}

// RecvVia replaces the operand of a receive expression: `<-ch` becomes `<-simrt.RecvVia(ch, site)`. The
// simulated receive happens inside; the returned one-shot channel hands the result to the real receive
// operator, which never blocks on it and keeps the comma-ok form working (a closed source gives a closed
// one-shot channel).
func RecvVia[T any](ch <-chan T, site string) <-chan T {
	if !isActive() {
		// a lone task about to wait: if the value is not there yet, let simulated time jump to the next timer
		// (discrete-event rule) and look again; with no timer pending the real receive blocks as it always did
		for IdleHook != nil {
			select {
			case v, ok := <-ch:
				tmp := make(chan T, 1)
				if ok {
					tmp <- v
				} else {
					close(tmp)
				}
				return tmp
			default:
			}
			if freeRunning.Load() > 0 {
				time.Sleep(20 * time.Microsecond) // goroutines of the code under test are running for real: wait for them, not for a timer
				continue
			}
			if !IdleHook() {
				break
			}
		}
		return ch
	}
	v, ok := chanRecv(ch, site)
	tmp := make(chan T, 1)
	if ok {
		tmp <- v
	} else {
		close(tmp)
	}
	return tmp
}

// ChanClose replaces close(ch).
func ChanClose[T any](ch chan<- T, site string) {
	if !isActive() {
		close(ch)
		return
	}
	a := chanAddr(ch)
	c := chanLookup(a)
	if c == nil {
		close(ch)
		yieldEv(evReleased, a)
		return
	}
	yieldEv(evYield, a)
	if c.isClosed() {
		panic("close of closed channel")
	}
	raceReleaseMerge(c.fwd())
	c.setClosed()
	yieldEv(evReleased, a)
}

// ChanLen replaces len(ch).
func ChanLen[T any](ch <-chan T) int {
	if isActive() {
		if c := chanLookup(chanAddr(ch)); c != nil {
			return c.length()
		}
	}
	return len(ch)
}

// ChanRange replaces the operand of `for v := range ch`.
func ChanRange[T any](ch <-chan T, site string) iter.Seq[T] {
	return func(yield func(T) bool) {
		for {
			v, ok := chanRecv(ch, site)
			if !ok || !yield(v) {
				return
			}
		}
	}
}

// --- select ------------------------------------------------------------------------------------------

// SelCase is one communication clause of a rewritten select statement.
type SelCase struct {
	ch   any
	addr uint64
	send bool
	v    any
	// operations on the real channel (channels that are not simulated)
	trySend func() bool
	tryRecv func() (any, bool, bool)
}

func SendCase[T any](ch chan<- T, v T) SelCase {
	return SelCase{ch: ch, addr: chanAddr(ch), send: true, v: v, trySend: func() bool {
		select {
		case ch <- v:
			return true
		default:
			return false
		}
	}}
}

func RecvCase[T any](ch <-chan T) SelCase {
	return SelCase{ch: ch, addr: chanAddr(ch), tryRecv: func() (any, bool, bool) {
		select {
		case v, ok := <-ch:
			return v, ok, true
		default:
			return nil, false, false
		}
	}}
}

// Sel is the outcome of a select.
type Sel struct {
	Index int // chosen clause in source order (clauses without the default); -1: default
	v     any
	ok    bool
}

// SelRecv returns the value received by the chosen clause (ch is only there to fix the type).
func SelRecv[T any](s *Sel, ch <-chan T) T {
	var zero T
	if s.v == nil {
		return zero
	}
	return s.v.(T)
}

// SelRecv2 is the comma-ok form.
func SelRecv2[T any](s *Sel, ch <-chan T) (T, bool) { return SelRecv(s, ch), s.ok }

var selRng uint64 // seeded per run from the schedule; token holder only

//go:norace
func selSeed(x uint64) { selRng = x | 1 }

//go:norace
func selNext(n int) int {
	selRng ^= selRng << 13
	selRng ^= selRng >> 7
	selRng ^= selRng << 17
	return int(selRng % uint64(n))
}

// Select replaces a select statement. Among the clauses that can proceed one is chosen by the run's
// seeded generator (the runtime chooses at random).
func Select(site string, hasDefault bool, cases ...SelCase) *Sel {
	if !isActive() {
		return realSelect(hasDefault, cases)
	}
	yieldEv(evYield, 0)
	var parked []*recvWaiter // this select's receive clauses, registered while it is parked
	var fired *bool          // set by the sender that counts on this parked select
	unpark := func() {
		for j, w := range parked {
			if w != nil {
				chanLookup(cases[j].addr).removeWaiter(w)
			}
		}
		parked = nil
	}
	for {
		foreign := false
		var ready []int
		for i, k := range cases {
			if k.addr == 0 { // nil channel: never ready
				continue
			}
			c := chanLookup(k.addr)
			if c == nil {
				foreign = true
				continue
			}
			if (k.send && c.canSend(fired)) || (!k.send && c.canRecv()) {
				ready = append(ready, i)
			}
		}
		if flagGet(fired) {
			// a sender handed its value to this parked select: take it where it waits (if another receiver
			// got there first, the select is free again)
			var owed []int
			for _, i := range ready {
				if k := cases[i]; !k.send && chanLookup(k.addr).hasPending() {
					owed = append(owed, i)
				}
			}
			if len(owed) > 0 {
				ready = owed
			} else {
				flagClear(fired)
			}
		}
		// candidates in a seeded rotation: simulated channels that can proceed and, unless a sender counts on this
		// select, the channels the simulator does not own (one non-blocking attempt each)
		var cand []int
		if flagGet(fired) {
			cand = ready
		} else {
			isReady := map[int]bool{}
			for _, i := range ready {
				isReady[i] = true
			}
			for i, k := range cases {
				if isReady[i] || (k.addr != 0 && chanLookup(k.addr) == nil) {
					cand = append(cand, i)
				}
			}
		}
		if len(cand) > 0 {
			off := selNext(len(cand))
			for j := range cand {
				i := cand[(j+off)%len(cand)]
				k := cases[i]
				c := chanLookup(k.addr)
				if c == nil { // foreign
					if k.send {
						if k.trySend() {
							unpark()
							return &Sel{Index: i}
						}
					} else if v, ok, done := k.tryRecv(); done {
						unpark()
						return &Sel{Index: i, v: v, ok: ok}
					}
					continue
				}
				unpark()
				if k.send {
					raceReleaseMerge(c.fwd())
					c.trySend(k.v) // into the buffer, or handed to the parked receiver that made the clause ready
					yieldEv(evReleased, k.addr)
					return &Sel{Index: i}
				}
				x, got, _, fromSender := c.tryRecv()
				raceAcquire(c.fwd())
				if fromSender {
					raceReleaseMerge(c.rev())
				}
				yieldEv(evReleased, k.addr)
				return &Sel{Index: i, v: x, ok: got}
			}
		}
		if hasDefault {
			return &Sel{Index: -1}
		}
		if !isActive() {
			return realSelect(hasDefault, cases)
		}
		if parked == nil {
			parked = make([]*recvWaiter, len(cases))
			fired = new(bool)
			for j, k := range cases {
				if c := chanLookup(k.addr); c != nil && !k.send {
					parked[j] = &recvWaiter{fired: fired}
					c.addWaiter(parked[j])
				}
			}
			yieldEv(evReleased, anyAddr) // senders parked on one of these channels can proceed now
			continue
		}
		if foreign {
			yieldEv(evPoll, 0) // something outside the simulator may make a clause ready: look again later
		} else {
			yieldEv(evBlocked, anyAddr)
		}
	}
}

// anyAddr: parked until any channel operation completes.
const anyAddr = ^uint64(0)

// IdleHook is called when nothing in the simulated run can proceed: it moves simulated time to the next timer and
// fires it (set by simtime); false when no timer is pending.
var IdleHook func() bool

func realSelect(hasDefault bool, cases []SelCase) *Sel {
	if !hasDefault && IdleHook != nil {
		// a lone task about to wait in a select: try without blocking, let simulated time jump, try again
		for {
			if s := realSelect(true, cases); s.Index >= 0 {
				return s
			}
			if freeRunning.Load() > 0 {
				time.Sleep(20 * time.Microsecond)
				continue
			}
			if !IdleHook() {
				break
			}
		}
	}
	rc := make([]reflect.SelectCase, 0, len(cases)+1)
	for _, k := range cases {
		if k.send {
			cv, sv := reflect.ValueOf(k.ch), reflect.ValueOf(k.v)
			if !sv.IsValid() {
				sv = reflect.Zero(cv.Type().Elem())
			}
			rc = append(rc, reflect.SelectCase{Dir: reflect.SelectSend, Chan: cv, Send: sv})
		} else {
			rc = append(rc, reflect.SelectCase{Dir: reflect.SelectRecv, Chan: reflect.ValueOf(k.ch)})
		}
	}
	if hasDefault {
		rc = append(rc, reflect.SelectCase{Dir: reflect.SelectDefault})
	}
	i, v, ok := reflect.Select(rc)
	if hasDefault && i == len(cases) {
		return &Sel{Index: -1}
	}
	s := &Sel{Index: i, ok: ok}
	if v.IsValid() {
		s.v = v.Interface()
	}
	return s
}
