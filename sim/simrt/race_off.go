//go:build !race

package simrt

import "unsafe"

// RaceEnabled reports whether the binary was built with -race.
const RaceEnabled = false

// RaceErrors is always 0 without the race detector.
func RaceErrors() int { return 0 }

func raceAcquire(p unsafe.Pointer)      {}
func raceReleaseMerge(p unsafe.Pointer) {}
