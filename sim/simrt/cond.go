package simrt

// sync.Cond of the code under test, simulated: Wait releases the lock, parks the task at the simulator's level
// until a Signal / Broadcast picks it (in arrival order, as the runtime's notify list does) and re-acquires the lock
// through the simulated Lock. The real Cond is not used inside a scheduled run (a task parked in the real Wait
// would hold the run token); the happens-before edges a correct program relies on are those of the lock, which
// stays real.

import "sync"

type condWaiter struct{ signalled bool }

type condEntry struct {
	c       *sync.Cond
	waiters []*condWaiter
}

var conds []*condEntry // token holder only

//go:norace
func condReset() { conds = nil }

//go:norace
func condOf(c *sync.Cond) *condEntry {
	for _, e := range conds {
		if e.c == c {
			return e
		}
	}
	e := &condEntry{c: c}
	conds = append(conds, e)
	return e
}

//go:norace
func (e *condEntry) add() *condWaiter {
	w := &condWaiter{}
	e.waiters = append(e.waiters, w)
	return w
}

//go:norace
func (e *condEntry) wake(all bool) {
	for len(e.waiters) > 0 {
		e.waiters[0].signalled = true
		e.waiters = e.waiters[1:]
		if !all {
			return
		}
	}
}

//go:norace
func (w *condWaiter) isSignalled() bool { return w.signalled }

// CondWait replaces c.Wait().
func CondWait(c *sync.Cond, site string) {
	if !isActive() {
		c.Wait()
		return
	}
	e := condOf(c)
	w := e.add()
	LockerUnlock(c.L, site)
	a := addrOf(c)
	for !w.isSignalled() {
		if !isActive() {
			break
		}
		yieldEv(evBlocked, a)
	}
	LockerLock(c.L, site)
}

// CondSignal replaces c.Signal().
func CondSignal(c *sync.Cond, site string) {
	if !isActive() {
		c.Signal()
		return
	}
	yieldEv(evYield, 0)
	condOf(c).wake(false)
	yieldEv(evReleased, addrOf(c))
}

// CondBroadcast replaces c.Broadcast().
func CondBroadcast(c *sync.Cond, site string) {
	if !isActive() {
		c.Broadcast()
		return
	}
	yieldEv(evYield, 0)
	condOf(c).wake(true)
	yieldEv(evReleased, addrOf(c))
}
