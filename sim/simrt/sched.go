package simrt

import (
	"encoding/binary"
	"fmt"
	"reflect"
	"runtime"
	"sync"
	"sync/atomic"
	"syscall"
)

// Cooperative scheduler for world C.
//
// Every simulated client is a real goroutine, but exactly one of them holds the run
// token at any time. The token and all event records travel through pipes that are
// read and written with raw syscall.Syscall(SYS_READ/SYS_WRITE): the Go race detector
// does not annotate those, so token passing adds NO happens-before edge between
// clients. The detector therefore sees only the synchronisation the code under test
// performs itself, on a schedule that is fully serialised and decided by the case's
// schedule vector. Scheduler state is owned by the scheduler goroutine; the few words
// shared with clients (active flag, abort flag) are touched only in //go:norace functions.

const (
	evYield    = 1 // plain scheduling point
	evBlocked  = 2 // try-lock failed on addr; do not run me until addr is released
	evReleased = 3 // I released addr
	evFinish   = 4 // client function returned
	evPanic    = 5 // client function panicked (value kept by the client)
	evSpawn    = 6 // I started a new task (addr = its id): the code under test executed a go statement
	evJoin     = 7 // do not run me until every task I spawned has finished (sync.WaitGroup.Wait)
	evPoll     = 8 // I am waiting for something outside the simulator (a timer, a context): run me only when nobody else can run
)

// maxTasks bounds the number of tasks of one run (initial clients + goroutines the code under test spawns).
const maxTasks = 256

type event struct {
	task int32
	kind int32
	addr uint64
}

// Decision records one scheduling step at which more than one client was runnable.
type Decision struct {
	Step     int
	Runnable int
	Picked   int // task id
}

// Result of one scheduled run.
type RunResult struct {
	Steps        int
	Decisions    []Decision
	Contended    int // number of evBlocked events (lock contention actually reached)
	Deadlock     bool
	DeadlockInfo string
	OverBudget   bool
	Panics       map[int]string
	Grants       []int32 // task id per step: the complete interleaving
	Spawned      int     // goroutines started by the code under test during the run (go statements)
	Leaked       int     // of those, still alive (parked or looping) when every client had finished
}

type schedState struct {
	wake   [][2]int // per task pipe: [read, write]; preallocated to maxTasks so that it never moves
	evPipe [2]int
	n      int // tasks so far; incremented by the task that holds the token when it spawns another
	// bookkeeping of spawned tasks; written by the token holder (Spawn) and read by the scheduler only
	// while no task runs, so the token protocol orders the accesses
	parentOf     []int
	childrenLive []int
	remaining    int
	spawned      int
	childDone    []chan struct{} // closed by each spawned goroutine when it returns; read by the scheduler after the run
}

//go:norace
func (s *schedState) addChildDone(c chan struct{}) { s.childDone = append(s.childDone, c) }

//go:norace
func (s *schedState) childDones() []chan struct{} { return s.childDone }

//go:norace
func (s *schedState) addTask(p [2]int, parent int) int {
	id := s.n
	s.wake[id] = p
	s.parentOf[id] = parent
	s.childrenLive[parent]++
	s.remaining++
	s.spawned++
	s.n++
	return id
}

//go:norace
func (s *schedState) finishTask(id int) (parentJoinable int) {
	s.remaining--
	if p := s.parentOf[id]; p >= 0 {
		s.childrenLive[p]--
		if s.childrenLive[p] == 0 {
			return p
		}
	}
	return -1
}

//go:norace
func (s *schedState) live(id int) int { return s.childrenLive[id] }

//go:norace
func (s *schedState) left() int { return s.remaining }

//go:norace
func (s *schedState) nSpawned() int { return s.spawned }

//go:norace
func (s *schedState) count() int { return s.n }

var (
	schedActive bool
	schedAbort  bool
	cur         *schedState
	// per task: the step number of the latest grant (written by the task itself after
	// reading it from its wake pipe; read by the same task)
	lastGrant []int64
	taskOf    map[uint64]int // goroutine-local lookup is avoided: tasks pass their id explicitly via curTask
	curTask   int            // id of the task holding the token (written by the scheduler before granting)
)

//go:norace
func isActive() bool { return schedActive && !schedAbort }

//go:norace
func setActive(b bool) { schedActive = b }

//go:norace
func setAbort(b bool) { schedAbort = b }

//go:norace
func getAbort() bool { return schedAbort }

//go:norace
func setCurTask(i int) { curTask = i }

//go:norace
func getCurTask() int { return curTask }

//go:norace
func setLastGrant(i int, s int64) { lastGrant[i] = s }

//go:norace
func getLastGrant(i int) int64 { return lastGrant[i] }

//go:norace
func getCur() *schedState { return cur }

//go:norace
func setCur(s *schedState) { cur = s }

func rawRead(fd int, b []byte) {
	for off := 0; off < len(b); {
		n, _, e := syscall.Syscall(syscall.SYS_READ, uintptr(fd), uintptr(unsafePtr(b[off:])), uintptr(len(b)-off))
		if e == syscall.EINTR {
			continue
		}
		if e != 0 || n == 0 {
			panic(fmt.Sprintf("simrt: raw read fd=%d: errno=%d n=%d", fd, e, n))
		}
		off += int(n)
	}
}

func rawWrite(fd int, b []byte) {
	for off := 0; off < len(b); {
		n, _, e := syscall.Syscall(syscall.SYS_WRITE, uintptr(fd), uintptr(unsafePtr(b[off:])), uintptr(len(b)-off))
		if e == syscall.EINTR {
			continue
		}
		if e != 0 {
			panic(fmt.Sprintf("simrt: raw write fd=%d: errno=%d", fd, e))
		}
		off += int(n)
	}
}

// abortSentinel is panicked inside clients when the scheduler gives up (deadlock or
// step budget); the client wrapper recovers it.
type abortSentinel struct{}

// ExitWithMain: the run models a whole process; it is over as soon as the initial clients have returned.
var ExitWithMain bool

// IsAbort reports whether a recovered panic value is the scheduler's own signal that the run is being torn down
// (deadlock, step budget, end of the grace period); code that recovers panics inside a client must re-panic it.
func IsAbort(r any) bool { _, ok := r.(abortSentinel); return ok }

// send an event to the scheduler and wait for the next grant.
func yieldEv(kind int32, addr uint64) {
	s := getCur()
	if (kind == evYield || kind == evReleased) && s.count() == 1 {
		return // the only task there has ever been in this run: nobody else could be scheduled here
	}
	id := getCurTask()
	var buf [16]byte
	binary.LittleEndian.PutUint32(buf[0:], uint32(id))
	binary.LittleEndian.PutUint32(buf[4:], uint32(kind))
	binary.LittleEndian.PutUint64(buf[8:], addr)
	rawWrite(s.evPipe[1], buf[:])
	if kind == evFinish || kind == evPanic {
		return
	}
	waitGrant(s, id)
}

func waitGrant(s *schedState, id int) {
	var g [8]byte
	rawRead(s.wake[id][0], g[:])
	step := int64(binary.LittleEndian.Uint64(g[:]))
	if step < 0 {
		panic(abortSentinel{})
	}
	setLastGrant(id, step)
}

// Yield is a plain scheduling point (no-op outside a scheduled run).
func Yield(site string) {
	if isActive() {
		yieldEv(evYield, 0)
	}
}

// Gosched replaces runtime.Gosched().
func Gosched() {
	if isActive() {
		yieldEv(evPoll, 0) // "let the others run first"
		return
	}
	runtime.Gosched()
}

// InRun reports whether the caller is a task of a scheduled run (and not the idle scheduler).
func InRun() bool { return isActive() }

// Concurrent reports whether the caller runs inside a scheduled run that has (or had) more than one task.
func Concurrent() bool { return isActive() && getCur().count() > 1 }

// Pause is the scheduling point of time.Sleep: like Gosched, the sleeper runs again only when nobody else can.
func Pause() {
	if isActive() {
		yieldEv(evPoll, 0)
	}
}

// After is wrapped around value-returning sync/atomic calls: the call is evaluated
// first (argument evaluation order), then the client yields.
func After[T any](v T, site string) T {
	if isActive() {
		yieldEv(evYield, 0)
	}
	return v
}

// AfterDo is the same for calls without a result.
func AfterDo(f func(), site string) {
	f()
	if isActive() {
		yieldEv(evYield, 0)
	}
}

// Now returns the global step number of the latest grant of the calling client; used
// to stamp invoke/return events of recorded histories.
func Now() int64 { return getLastGrant(getCurTask()) }

type mutexLike interface {
	Lock()
	Unlock()
	TryLock() bool
}

type rwMutexLike interface {
	mutexLike
	RLock()
	RUnlock()
	TryRLock() bool
}

func addrOf(m any) uint64 { return uint64(reflect.ValueOf(m).Pointer()) }

// Lock replaces m.Lock(): a scheduling point, then a try-lock loop so a client never
// blocks the OS thread while it holds the run token.
func Lock(m mutexLike, site string) {
	if !isActive() {
		m.Lock()
		return
	}
	a := addrOf(m)
	yieldEv(evYield, a)
	// sync.RWMutex: a Lock call that has to wait keeps new readers out until it has had its turn; the try-lock loop
	// alone would let readers stream past a waiting writer, and a reader that takes the read lock a second time
	// behind a waiting writer (a deadlock of the real lock) would go unnoticed
	_, isRW := m.(rwMutexLike)
	waiting := false
	for !m.TryLock() {
		if !isActive() { // aborted while waiting
			if waiting {
				wwaitAdd(a, -1)
			}
			m.Lock()
			return
		}
		if isRW && !waiting {
			waiting = true
			wwaitAdd(a, 1)
		}
		yieldEv(evBlocked, a)
	}
	if waiting {
		wwaitAdd(a, -1)
	}
	// a second scheduling point with the lock held: the others may now run into the held lock (and see a TryLock
	// fail, or queue up behind it), as they do when the holder is preempted inside its critical section
	yieldEv(evYield, a)
}

// writers waiting per RWMutex address; read and written only by the client that holds the run token
type wwait struct {
	addr uint64
	n    int
}

var wwaits []wwait

//go:norace
func wwaitReset() { wwaits = nil }

//go:norace
func wwaitAdd(a uint64, d int) {
	for i := range wwaits {
		if wwaits[i].addr == a {
			wwaits[i].n += d
			return
		}
	}
	wwaits = append(wwaits, wwait{a, d})
}

//go:norace
func wwaitN(a uint64) int {
	for i := range wwaits {
		if wwaits[i].addr == a {
			return wwaits[i].n
		}
	}
	return 0
}

// Unlock replaces m.Unlock().
func Unlock(m mutexLike, site string) {
	m.Unlock()
	if isActive() {
		yieldEv(evReleased, addrOf(m))
	}
}

// RLock replaces m.RLock().
func RLock(m rwMutexLike, site string) {
	if !isActive() {
		m.RLock()
		return
	}
	a := addrOf(m)
	yieldEv(evYield, a)
	for wwaitN(a) > 0 || !m.TryRLock() {
		if !isActive() {
			m.RLock()
			return
		}
		yieldEv(evBlocked, a)
	}
	yieldEv(evYield, a) // with the read lock held: other readers may overlap, writers queue up
}

// RUnlock replaces m.RUnlock().
func RUnlock(m rwMutexLike, site string) {
	m.RUnlock()
	if isActive() {
		yieldEv(evReleased, addrOf(m))
	}
}

// TryLock replaces m.TryLock().
func TryLock(m mutexLike, site string) bool {
	if isActive() {
		yieldEv(evYield, addrOf(m))
	}
	return m.TryLock()
}

// TryRLock replaces m.TryRLock().
func TryRLock(m rwMutexLike, site string) bool {
	if isActive() {
		yieldEv(evYield, addrOf(m))
	}
	return m.TryRLock()
}

// Run executes the client functions under the cooperative scheduler. schedule[i]
// selects among the runnable clients at step i (mod their number); when the vector
// is exhausted the lowest-numbered runnable client runs, so vectors shrink towards
// "no context switch". Each client function should call Yield at operation
// boundaries. maxSteps bounds the run.
func Run(clients []func(), schedule []uint16, maxSteps int) *RunResult {
	n := len(clients)
	s := &schedState{n: n, wake: make([][2]int, maxTasks), parentOf: make([]int, maxTasks), childrenLive: make([]int, maxTasks), remaining: n}
	for i := range s.parentOf {
		s.parentOf[i] = -1
	}
	mkpipe := func() [2]int {
		var p [2]int
		if err := syscall.Pipe2(p[:], syscall.O_CLOEXEC); err != nil {
			panic("simrt: pipe: " + err.Error())
		}
		return p
	}
	s.evPipe = mkpipe()
	for i := 0; i < n; i++ {
		s.wake[i] = mkpipe()
	}
	defer func() {
		syscall.Close(s.evPipe[0])
		syscall.Close(s.evPipe[1])
		for _, p := range s.wake[:s.count()] {
			syscall.Close(p[0])
			syscall.Close(p[1])
		}
	}()

	res := &RunResult{Panics: map[int]string{}}
	lastGrant = make([]int64, maxTasks)
	onceReset()
	chanReset()
	wwaitReset()
	condReset()
	{
		h := uint64(1469598103934665603)
		for _, v := range schedule {
			h = (h ^ uint64(v)) * 1099511628211
		}
		selSeed(h)
	}
	setCur(s)
	setAbort(false)
	setActive(true)
	defer setActive(false)

	done := make([]chan struct{}, n)
	panicVals := make([]string, n)
	for i := range clients {
		done[i] = make(chan struct{})
		go func(i int) {
			defer close(done[i])
			finished := false
			defer func() {
				if r := recover(); r != nil {
					if _, ok := r.(abortSentinel); ok {
						return
					}
					panicVals[i] = fmt.Sprint(r)
					if !getAbort() && !finished {
						setCurTaskIfMine(i)
						yieldEv(evPanic, 0)
					}
				}
			}()
			waitGrant(s, i) // wait for the first grant before touching anything
			clients[i]()
			finished = true
			yieldEv(evFinish, 0)
		}(i)
	}

	const (
		stRunnable = iota
		stBlocked
		stFinished
		stJoining // waiting for the tasks it spawned
		stPolling // waiting for an event outside the simulator; retried when no other task can run
	)
	status := make([]int, maxTasks)
	blockedOn := make([]uint64, maxTasks)
	lastRun := make([]int, maxTasks)

	grant := func(i int, step int64) {
		var g [8]byte
		binary.LittleEndian.PutUint64(g[:], uint64(step))
		setCurTask(i)
		rawWrite(s.wake[i][1], g[:])
	}
	abortAll := func() {
		setAbort(true)
		for i := 0; i < s.count(); i++ {
			if status[i] != stFinished {
				var g [8]byte
				binary.LittleEndian.PutUint64(g[:], ^uint64(0))
				rawWrite(s.wake[i][1], g[:])
			}
		}
	}

	step := 0
	graceEnd := 0
	for s.left() > 0 {
		var runnable []int
		for i := 0; i < s.count(); i++ {
			if status[i] == stRunnable {
				runnable = append(runnable, i)
			}
		}
		if len(runnable) == 0 {
			// every task waits: simulated time jumps to the next timer (tasks waiting for one are polling)
			if IdleHook != nil {
				setActive(false) // a timer function (AfterFunc) runs outside the token protocol
				IdleHook()
				setActive(true)
			}
			for i := 0; i < s.count(); i++ {
				if status[i] == stPolling {
					runnable = append(runnable, i)
				}
			}
		}
		clientsLeft := 0
		for i := 0; i < n; i++ {
			if status[i] != stFinished {
				clientsLeft++
			}
		}
		if clientsLeft == 0 {
			// only goroutines the code under test started are left (background workers that wait for work or
			// for a stop signal nobody sends): not a deadlock of the clients. They get a grace period to finish.
			if graceEnd == 0 {
				graceEnd = step + 400
				if ExitWithMain {
					graceEnd = step // a process ends when its main goroutine returns, whatever else is still running
				}
			}
			onlyPolling := len(runnable) > 0 && status[runnable[0]] == stPolling
			if len(runnable) == 0 || onlyPolling || step >= graceEnd || step >= maxSteps {
				res.Leaked = s.left()
				abortAll()
				break
			}
		}
		if len(runnable) == 0 {
			res.Deadlock = true
			res.DeadlockInfo = fmt.Sprintf("status=%v blockedOn=%x", status[:s.count()], blockedOn[:s.count()])
			abortAll()
			break
		}
		if step >= maxSteps {
			res.OverBudget = true
			abortAll()
			break
		}
		pick := runnable[0]
		if step < len(schedule) {
			pick = runnable[int(schedule[step])%len(runnable)]
		} else if step%8 == 7 && len(runnable) > 1 && status[pick] != stPolling {
			// beyond the end of the vector the lowest-numbered task runs - but not for ever: every eighth step goes to
			// the runnable task that has waited longest, as a preemptive runtime would get round to it (a background
			// goroutine must not starve just because the vector is short)
			for _, i := range runnable {
				if lastRun[i] < lastRun[pick] {
					pick = i
				}
			}
		} else if status[pick] == stPolling {
			// only waiting tasks are left: the one that has waited longest goes first, so that two of them cannot
			// starve each other
			for _, i := range runnable {
				if lastRun[i] < lastRun[pick] {
					pick = i
				}
			}
		}
		lastRun[pick] = step + 1
		if len(runnable) > 1 {
			res.Decisions = append(res.Decisions, Decision{Step: step, Runnable: len(runnable), Picked: pick})
		}
		res.Grants = append(res.Grants, int32(pick))
		grant(pick, int64(step))
		var buf [16]byte
		rawRead(s.evPipe[0], buf[:])
		ev := event{task: int32(binary.LittleEndian.Uint32(buf[0:])), kind: int32(binary.LittleEndian.Uint32(buf[4:])), addr: binary.LittleEndian.Uint64(buf[8:])}
		if int(ev.task) != pick {
			panic(fmt.Sprintf("simrt: event from task %d while task %d holds the token", ev.task, pick))
		}
		if status[pick] == stPolling {
			status[pick] = stRunnable
		}
		switch ev.kind {
		case evYield:
		case evPoll:
			status[pick] = stPolling
		case evBlocked:
			status[pick] = stBlocked
			blockedOn[pick] = ev.addr
			res.Contended++
		case evReleased:
			for i := 0; i < s.count(); i++ {
				if status[i] == stBlocked && (blockedOn[i] == ev.addr || blockedOn[i] == anyAddr || ev.addr == anyAddr) {
					status[i] = stRunnable
				}
			}
		case evJoin:
			if s.live(pick) > 0 {
				status[pick] = stJoining
			}
		case evFinish, evPanic:
			status[pick] = stFinished
			if p := s.finishTask(pick); p >= 0 && status[p] == stJoining {
				status[p] = stRunnable
			}
		}
		step++
	}
	res.Steps = step
	res.Spawned = s.nSpawned()
	for _, c := range s.childDones() {
		<-c
	}
	for i := range done {
		<-done[i]
		if panicVals[i] != "" {
			res.Panics[i] = panicVals[i]
		}
	}
	setActive(false)
	return res
}

var freeRunning atomic.Int64

// Child is the handle of a goroutine the code under test is about to start.
type Child struct {
	s    *schedState
	id   int
	done chan struct{}
}

// Spawn is evaluated by the spawning task as part of the rewritten go statement
// (`go f(x)` becomes `go simrt.GoRun(simrt.Spawn(site), func() { f(x) })`): it registers a new task
// with the scheduler and is a scheduling point. Outside a scheduled run it returns nil and the
// goroutine simply runs.
func Spawn(site string) *Child {
	if !isActive() {
		return nil
	}
	s := getCur()
	if s.count() >= maxTasks {
		panic("simrt: too many tasks in one simulated run")
	}
	var p [2]int
	if err := syscall.Pipe2(p[:], syscall.O_CLOEXEC); err != nil {
		panic("simrt: pipe: " + err.Error())
	}
	// no scheduling point here: the goroutine does not exist before the go statement that follows has run,
	// so the new task must not be granted the token before the spawner reaches its next scheduling point
	id := s.addTask(p, getCurTask())
	c := &Child{s: s, id: id, done: make(chan struct{})}
	s.addChildDone(c.done)
	return c
}

// GoRun is the body of the rewritten go statement: the new goroutine waits for its first grant, runs
// the original call and reports that it finished.
func GoRun(c *Child, fn func()) {
	if c == nil {
		// outside a scheduled run the goroutine runs freely; it is counted, because a task that waits while such a
		// goroutine is alive is not alone and must not make simulated time jump
		freeRunning.Add(1)
		defer freeRunning.Add(-1)
		fn()
		return
	}
	defer close(c.done)
	finished := false
	defer func() {
		if r := recover(); r != nil {
			if _, ok := r.(abortSentinel); ok {
				return
			}
			if !getAbort() && !finished {
				setCurTask(c.id)
				yieldEv(evPanic, 0)
			}
		}
	}()
	waitGrant(c.s, c.id)
	fn()
	finished = true
	yieldEv(evFinish, 0)
}

// WGWait replaces wg.Wait() on a sync.WaitGroup: the task is not run again until every task it spawned
// has finished, then the real Wait is called (which returns at once if the group counts those tasks).
func WGWait(wg *sync.WaitGroup, site string) {
	if isActive() {
		yieldEv(evJoin, 0)
	}
	wg.Wait()
}

// a panicking client still holds the token (panics happen while running), so its id
// is the current task; this helper exists to make that explicit.
func setCurTaskIfMine(i int) { setCurTask(i) }

// --- method values ----------------------------------------------------------------------------------
//
// `unlock := mu.Unlock` (or `return mu.Unlock`, `defer f(mu.Lock)`) takes a method VALUE: no call the rewriter
// could redirect. The receiver expression is wrapped instead: `simrt.MV(&mu, site).Unlock` is a method value of a
// view whose methods are the simulated operations.

type MutexView struct {
	m    mutexLike
	site string
}

func MV(m mutexLike, site string) MutexView { return MutexView{m, site} }
func (v MutexView) Lock()                   { Lock(v.m, v.site) }
func (v MutexView) Unlock()                 { Unlock(v.m, v.site) }
func (v MutexView) TryLock() bool           { return TryLock(v.m, v.site) }

type RWMutexView struct {
	m    rwMutexLike
	site string
}

func RWV(m rwMutexLike, site string) RWMutexView { return RWMutexView{m, site} }
func (v RWMutexView) Lock()                      { Lock(v.m, v.site) }
func (v RWMutexView) Unlock()                    { Unlock(v.m, v.site) }
func (v RWMutexView) TryLock() bool              { return TryLock(v.m, v.site) }
func (v RWMutexView) RLock()                     { RLock(v.m, v.site) }
func (v RWMutexView) RUnlock()                   { RUnlock(v.m, v.site) }
func (v RWMutexView) TryRLock() bool             { return TryRLock(v.m, v.site) }

// RLocker replaces rw.RLocker(): a sync.Locker whose Lock / Unlock are the simulated RLock / RUnlock.
func (v RWMutexView) RLocker() sync.Locker { return rlockerView(v) }

type rlockerView RWMutexView

func (v rlockerView) Lock()   { RLock(v.m, v.site) }
func (v rlockerView) Unlock() { RUnlock(v.m, v.site) }

// --- sync.Once -------------------------------------------------------------------------------------
//
// once.Do(f) blocks callers for real while another goroutine is inside f. If f reaches a scheduling
// point, a second task calling Do would block the OS thread while holding the run token. OnceDo keeps
// callers out at the simulator's level instead (they are parked as "blocked on the Once" until the
// task inside returns), and calls the real Do, so the happens-before edge the code relies on is the
// real one.

var onceBusy [64]uint64 // addresses of the sync.Once values some task is inside; token holder only

//go:norace
func onceEnter(a uint64) bool {
	free := -1
	for i, v := range onceBusy {
		if v == a {
			return false
		}
		if v == 0 && free < 0 {
			free = i
		}
	}
	if free < 0 {
		panic("simrt: too many sync.Once values in use at the same time")
	}
	onceBusy[free] = a
	return true
}

//go:norace
func onceReset() { onceBusy = [64]uint64{} }

//go:norace
func onceLeave(a uint64) {
	for i, v := range onceBusy {
		if v == a {
			onceBusy[i] = 0
		}
	}
}

// OnceDo replaces o.Do(f).
func OnceDo(o *sync.Once, f func(), site string) {
	if !isActive() {
		o.Do(f)
		return
	}
	a := addrOf(o)
	yieldEv(evYield, a)
	for !onceEnter(a) {
		yieldEv(evBlocked, a)
	}
	defer func() {
		onceLeave(a)
		if isActive() {
			yieldEv(evReleased, a)
		}
	}()
	o.Do(f)
}

// LockerLock / LockerUnlock replace Lock / Unlock through the sync.Locker interface.
func LockerLock(l sync.Locker, site string) {
	if m, ok := l.(mutexLike); ok {
		Lock(m, site)
		return
	}
	l.Lock()
}

func LockerUnlock(l sync.Locker, site string) {
	if m, ok := l.(mutexLike); ok {
		Unlock(m, site)
		return
	}
	l.Unlock()
}
