package simrt

import (
	"reflect"
	"unsafe"
)

func unsafePtr(b []byte) unsafe.Pointer { return unsafe.Pointer(&b[0]) }

// TapRecord is one call of a tapped engine entry point in this process.
type TapRecord struct {
	Name    string
	Args    []any
	Results []any
}

var (
	tapOn bool
	taps  []TapRecord
)

// EnableTaps switches recording on (single-task worlds only) and clears the log.
func EnableTaps(on bool) { tapOn = on; taps = nil }

// Taps returns the records so far.
func Taps() []TapRecord { return taps }

// Tap is called by the generated wrappers around SearchUniversal and
// RecoverFromSearchFailure.
func Tap(name string, args []any, results []any) {
	if !tapOn {
		return
	}
	taps = append(taps, TapRecord{Name: name, Args: snapshotAll(args), Results: snapshotAll(results)})
}

// snapshotAll copies slices and maps at the moment of the call: the caller is free to sort, cut or overwrite what
// the engine returned (and does: the CLI re-sorts the result slice in place before printing), and the record must
// keep what the engine answered, not what became of it.
func snapshotAll(vs []any) []any {
	out := make([]any, len(vs))
	for i, v := range vs {
		out[i] = snapshot(v)
	}
	return out
}

func snapshot(v any) any {
	rv := reflect.ValueOf(v)
	switch rv.Kind() {
	case reflect.Slice:
		if rv.IsNil() {
			return v
		}
		cp := reflect.MakeSlice(rv.Type(), rv.Len(), rv.Len())
		reflect.Copy(cp, rv)
		return cp.Interface()
	case reflect.Map:
		if rv.IsNil() {
			return v
		}
		cp := reflect.MakeMapWithSize(rv.Type(), rv.Len())
		it := rv.MapRange()
		for it.Next() {
			cp.SetMapIndex(it.Key(), it.Value())
		}
		return cp.Interface()
	}
	return v
}
