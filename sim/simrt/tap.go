package simrt

import "unsafe"

func unsafePtr(b []byte) unsafe.Pointer { return unsafe.Pointer(&b[0]) }

// TapRecord is one call of a tapped engine entry point in this process.
type TapRecord struct {
	Name    string
	Args    []any
	Results []any
}

var (
	tapOn bool
	taps  []TapRecord
)

// EnableTaps switches recording on (single-task worlds only) and clears the log.
func EnableTaps(on bool) { tapOn = on; taps = nil }

// Taps returns the records so far.
func Taps() []TapRecord { return taps }

// Tap is called by the generated wrappers around SearchUniversal and
// RecoverFromSearchFailure.
func Tap(name string, args []any, results []any) {
	if !tapOn {
		return
	}
	taps = append(taps, TapRecord{Name: name, Args: args, Results: results})
}
