//go:build race

package simrt

import (
	"runtime"
	"unsafe"
)

// RaceEnabled reports whether the binary was built with -race.
const RaceEnabled = true

// RaceErrors is the number of data races the detector has reported so far in this
// process (GORACE must disable report de-duplication for per-case attribution).
func RaceErrors() int { return runtime.RaceErrors() }

func raceAcquire(p unsafe.Pointer)      { runtime.RaceAcquire(p) }
func raceReleaseMerge(p unsafe.Pointer) { runtime.RaceReleaseMerge(p) }
