package harness

import (
	"crypto/sha256"
	"encoding/hex"
	"encoding/json"
	"flag"
	"fmt"
	"os"
	"path/filepath"
	"regexp"
	"sort"
	"strings"
	"testing"
	"time"

	"github.com/Vedant9500/WTF/zz_verif/sim/simrand"
	"github.com/Vedant9500/WTF/zz_verif/sim/simrt"
	"pgregory.net/rapid"
)

// Flags of the harness binary. VERIF_SEED is turned into -verif.seed by bin/check.
var (
	flagReplay  = flag.String("verif.replay", "", "replay file to execute instead of generating cases")
	flagOut     = flag.String("verif.out", "", "directory for stats / replay output of this worker")
	flagBudget  = flag.Duration("verif.budget", 20*time.Second, "wall-clock budget for case generation")
	flagSeed    = flag.Uint64("verif.seed", 20260928, "base seed (VERIF_SEED)")
	flagWorker  = flag.Int("verif.worker", 0, "worker index")
	flagBatch   = flag.Int("verif.batch", 400, "cases per rapid batch")
	flagKnown   = flag.String("verif.known", "", "known-findings file")
	flagDigests = flag.Bool("verif.digests", false, "record per-case digests (determinism self-test)")
	flagMaxCase = flag.Int("verif.maxcases", 0, "stop after this many cases (0 = budget only)")
	flagWorkers = flag.Int("verif.workers", 1, "number of workers (splits enumerations)")
	flagTier    = flag.String("verif.tier", "quick", "quick|thorough (sizes of enumerations)")
)

// Outcome is what executing one Case produced.
type Outcome struct {
	Violation    string         // "" = the property held on this case
	Sig          string         // stable signature of the violation (known-findings matching)
	Behaviour    string         // behavioural signature, for counting distinct cases
	NonTrivial   bool           // by the property's stated rule
	Digest       string         // hash of everything observable in the run (determinism self-test)
	Probes       map[string]int // rare-branch counters actually hit
	Faults       map[string]int // fault kinds that actually fired
	SimNanos     int64          // simulated time covered
	Inconclusive int
	Evals        int // executions inside this case (enumerations); 0 means 1
	Skip         bool
	Replay       any    // when non-nil: the case to store as the replay file instead of the generated one (e.g. the same case narrowed to the one failing fault)
	Harness      string // trouble of the harness itself (watchdog, node protocol): exit 2, never a verdict
}

// Stats is what a worker writes to <out>/stats-<worker>.json.
type Stats struct {
	Property     string            `json:"property"`
	Worker       int               `json:"worker"`
	Seed         uint64            `json:"seed"`
	Cases        int               `json:"cases"`
	Evals        int               `json:"evals"`
	NonTrivial   int               `json:"nontrivial"`
	Distinct     []string          `json:"distinct"` // hashes of behavioural signatures of non-trivial cases
	DistinctCap  bool              `json:"distinct_capped"`
	Probes       map[string]int    `json:"probes"`
	Faults       map[string]int    `json:"faults"`
	SimNanos     int64             `json:"sim_nanos"`
	Inconclusive int               `json:"inconclusive"`
	Known        map[string]int    `json:"known"` // known-finding signature -> hits
	KnownDesc    map[string]string `json:"known_desc"`
	Violation    string            `json:"violation"`
	Sig          string            `json:"sig"`
	ReplayFile   string            `json:"replay_file"`
	Samples      []json.RawMessage `json:"samples"`
	Digests      []string          `json:"digests,omitempty"`
	Nondet       string            `json:"nondeterminism,omitempty"`
	HarnessErr   string            `json:"harness_error,omitempty"`
	EnumDone     int               `json:"enum_done"`  // enumerated cases executed by this worker
	Panics       int               `json:"sut_panics"` // cases skipped because the code under test panicked where a panic is not this property's subject
	PanicSample  string            `json:"sut_panic_sample,omitempty"`
	WallS        float64           `json:"wall_s"`
	Batches      int               `json:"batches"`
	RapidSeeds   []uint64          `json:"rapid_seeds,omitempty"`
	Extra        map[string]any    `json:"extra,omitempty"`
}

// ReplayFile is the on-disk form of a (minimised) failing case.
type ReplayFile struct {
	Property  string          `json:"property"`
	Seed      uint64          `json:"verif_seed"`
	Worker    int             `json:"worker"`
	RapidSeed uint64          `json:"rapid_seed"`
	Violation string          `json:"violation"`
	Sig       string          `json:"sig"`
	Case      json.RawMessage `json:"case"`
}

type knownFinding struct {
	prop string
	re   *regexp.Regexp
	desc string
}

func loadKnown(path, prop string) []knownFinding {
	if path == "" {
		return nil
	}
	b, err := os.ReadFile(path)
	if err != nil {
		return nil
	}
	var out []knownFinding
	for _, line := range strings.Split(string(b), "\n") {
		line = strings.TrimSpace(line)
		if !strings.HasPrefix(line, "finding:") {
			continue
		}
		// finding: property=C05 sig=<regexp> <free text>
		f := strings.Fields(strings.TrimPrefix(line, "finding:"))
		var p, sig string
		var rest []string
		for _, w := range f {
			switch {
			case strings.HasPrefix(w, "property=") && p == "":
				p = strings.TrimPrefix(w, "property=")
			case strings.HasPrefix(w, "sig=") && sig == "":
				sig = strings.TrimPrefix(w, "sig=")
			default:
				rest = append(rest, w)
			}
		}
		if p != prop || sig == "" {
			continue
		}
		re, err := regexp.Compile("^(?:" + sig + ")$")
		if err != nil {
			continue
		}
		out = append(out, knownFinding{prop: p, re: re, desc: strings.Join(rest, " ")})
	}
	return out
}

func isKnown(known []knownFinding, sig string) bool {
	for _, k := range known {
		if k.re.MatchString(sig) {
			return true
		}
	}
	return false
}

func hashStr(s string) string {
	h := sha256.Sum256([]byte(s))
	return hex.EncodeToString(h[:8])
}

func splitmix(x uint64) uint64 {
	x += 0x9e3779b97f4a7c15
	x = (x ^ (x >> 30)) * 0xbf58476d1ce4e5b9
	x = (x ^ (x >> 27)) * 0x94d049bb133111eb
	x ^= x >> 31
	if x == 0 {
		x = 1
	}
	return x
}

const distinctCap = 150000

// runProperty is the common driver: generate cases with rapid (the only choice
// source), execute each as a pure function of the case, aggregate coverage, and on a
// violation leave the minimised case as a replay file. In replay mode it executes the
// stored case once, without rapid.
// scheduledOutcome runs a single-task case body as the first task of a cooperative run: goroutines the code under
// test starts, the channels between them, its timers and the choices of its select statements are then decided by
// the schedule vector of the case instead of by the Go runtime. With a code base that starts no goroutine the body
// simply runs through.
func scheduledOutcome(sched []uint16, body func() *Outcome) *Outcome {
	var o *Outcome
	rr := simrt.Run([]func(){func() { o = body() }}, sched, 50_000_000)
	for _, pv := range rr.Panics {
		panic(pv) // a crash of the code under test: counted by the runner
	}
	if rr.Deadlock {
		return &Outcome{Harness: "the single-task case ended with every goroutine of the code under test blocked: " + rr.DeadlockInfo}
	}
	if rr.OverBudget {
		return &Outcome{Harness: "step budget of the simulated run exceeded"}
	}
	if o != nil && rr.Spawned > 0 {
		if o.Probes == nil {
			o.Probes = map[string]int{}
		}
		o.Probes["sched.goroutines_started_by_code"] += rr.Spawned
	}
	return o
}

// inSim runs code of the repository that the harness calls for its own purposes (building a pre-state, decoding a
// file with the real loader) as a cooperative run of one task, so that goroutines, channels and timers inside it are
// simulated there too.
func inSim(sched []uint16, body func()) {
	rr := simrt.Run([]func(){body}, sched, 50_000_000)
	for _, pv := range rr.Panics {
		panic(pv)
	}
}

func runProperty[C any](t *testing.T, prop string, gen func(*rapid.T) C, run func(C) *Outcome) {
	runPropertyEnum(t, prop, nil, gen, run)
}

// runPropertyEnum first executes the cases of a finite enumeration (split over the
// workers), then continues with rapid-generated cases until the budget is used up.
func runPropertyEnum[C any](t *testing.T, prop string, enum []C, gen func(*rapid.T) C, run func(C) *Outcome) {
	if *flagReplay != "" {
		b, err := os.ReadFile(*flagReplay)
		if err != nil {
			fmt.Printf("HARNESS-ERROR cannot read replay file: %v\n", err)
			os.Exit(2)
		}
		var rf ReplayFile
		if err := json.Unmarshal(b, &rf); err != nil {
			fmt.Printf("HARNESS-ERROR bad replay file: %v\n", err)
			os.Exit(2)
		}
		if rf.Property != prop {
			fmt.Printf("HARNESS-ERROR replay file is for %s, not %s\n", rf.Property, prop)
			os.Exit(2)
		}
		var c C
		if err := json.Unmarshal(rf.Case, &c); err != nil {
			fmt.Printf("HARNESS-ERROR bad case in replay file: %v\n", err)
			os.Exit(2)
		}
		o := run(c)
		// The race detector has no false positives but may miss a race it reported before when an
		// incidental happens-before edge (runtime caches warmed differently) hides it; the execution
		// itself is identical. For a recorded race verdict the replay is therefore attempted a few times.
		// Likewise for two separate processes that print different output: if the difference comes from something the
		// processes draw from the operating system (a per-process hash seed), a pair of fresh processes shows it
		// again only with some probability.
		for i := 0; i < 8 && o.Violation == "" && (strings.Contains(rf.Sig, "/race:") || strings.Contains(rf.Sig, "C02/process-output")); i++ {
			o = run(c)
		}
		if n := os.Getenv("VERIF_REPLAY_REPEAT"); n != "" { // debugging aid: is the verdict stable within one process?
			var k int
			fmt.Sscan(n, &k)
			for i := 0; i < k; i++ {
				o2 := run(c)
				fmt.Printf("REPEAT %d sig=%q digest=%s behaviour=%s\n", i, o2.Sig, o2.Digest, o2.Behaviour)
			}
		}
		if o.Violation != "" {
			fmt.Printf("REPLAY-VIOLATION property=%s sig=%s\n%s\n", prop, o.Sig, o.Violation)
			t.Fail()
			return
		}
		fmt.Printf("REPLAY-OK property=%s (case no longer violates)\n", prop)
		return
	}

	known := loadKnown(*flagKnown, prop)
	st := &Stats{Property: prop, Worker: *flagWorker, Seed: *flagSeed, Probes: map[string]int{}, Faults: map[string]int{},
		Known: map[string]int{}, KnownDesc: map[string]string{}}
	distinct := map[string]bool{}
	start := time.Now()
	deadline := start.Add(*flagBudget)
	outDir := *flagOut
	if outDir == "" {
		outDir = t.TempDir()
	}
	replayPath := filepath.Join(outDir, fmt.Sprintf("replay-%s-w%d.json", prop, *flagWorker))
	os.Remove(replayPath)
	var curRapidSeed uint64
	caseNo := 0
	var violAt time.Time
	shrinkBudget := 25 * time.Second
	if *flagTier == "thorough" {
		shrinkBudget = 3 * time.Minute
	}

	writeStats := func() {
		st.WallS = time.Since(start).Seconds()
		st.Distinct = st.Distinct[:0]
		for k := range distinct {
			st.Distinct = append(st.Distinct, k)
		}
		sort.Strings(st.Distinct)
		b, _ := json.Marshal(st)
		_ = os.WriteFile(filepath.Join(outDir, fmt.Sprintf("stats-%s-w%d.json", prop, *flagWorker)), b, 0o644)
	}
	defer writeStats()

	safeRun := func(c C) (o *Outcome) {
		defer func() {
			if r := recover(); r != nil {
				st.Panics++
				if st.PanicSample == "" {
					cj, _ := json.Marshal(c)
					st.PanicSample = fmt.Sprintf("%v on case %s", r, cj)
					if len(st.PanicSample) > 1500 {
						st.PanicSample = st.PanicSample[:1500]
					}
				}
				o = &Outcome{Skip: true}
			}
		}()
		simrand.Install(1) // the runtime seeds math/rand at random in every process; a case that wants other draws installs its own seed
		return run(c)
	}
	handle := func(c C, fatal func(sig string)) {
		if st.HarnessErr != "" {
			return
		}
		if st.Violation == "" && st.Cases > 0 && time.Now().After(deadline) {
			return // budget used up: let the current rapid batch drain without executing more cases
		}
		if st.Violation != "" && time.Since(violAt) > shrinkBudget {
			return // minimisation budget used up (rapid checks its own limit only between phases): stop accepting candidates
		}
		o := safeRun(c)
		if o.Harness != "" && strings.Contains(o.Harness, "child process could not be started") {
			time.Sleep(time.Second)
			o = safeRun(c) // an overloaded machine, not the code under test: once more
		}
		if o.Harness != "" {
			st.HarnessErr = o.Harness
			return
		}
		if o.Skip {
			return
		}
		frozen := st.Violation != "" // rapid is reproducing / minimising a failure: no accounting
		if !frozen {
			caseNo++
			st.Cases++
			if o.Evals > 0 {
				st.Evals += o.Evals
			} else {
				st.Evals++
			}
			// in-process re-execution of a sample of cases: the run must be a pure function of the case
			if o.Digest != "" && (caseNo <= 3 || caseNo%97 == 0) {
				o2 := safeRun(c)
				if o2.Harness != "" || o2.Skip {
					o2 = safeRun(c) // trouble of the harness itself during the re-execution (a child process starved by an overloaded machine): once more
				}
				if o2.Harness != "" {
					st.HarnessErr = "re-execution of case " + fmt.Sprint(caseNo) + ": " + o2.Harness
					return
				}
				if o2.Skip {
					o2 = o // nothing to compare
				}
				// The race detector never reports a race that is not there, but an incidental happens-before
				// edge (runtime caches warmed by the first execution) can hide one on re-execution: a differing
				// race verdict over an identical execution (same digest) is not nondeterminism, and the run that
				// reported the race is the one that counts.
				raceSig := func(s string) bool { return strings.Contains(s, "/race:") }
				if o2.Digest == o.Digest && o2.Sig != o.Sig && (raceSig(o.Sig) || raceSig(o2.Sig)) {
					if raceSig(o2.Sig) && !raceSig(o.Sig) {
						o = o2
					}
				} else if (o2.Digest != o.Digest || o2.Sig != o.Sig) && st.Nondet == "" { // the violation text may hold addresses; the signature may not
					cj, _ := json.Marshal(c)
					st.Nondet = fmt.Sprintf("case %d gave digest %s then %s, signature %q then %q; CASE=%s\nfirst: %s\nsecond: %s", caseNo, o.Digest, o2.Digest, o.Sig, o2.Sig, cj, o.Violation, o2.Violation)
				}
			}
			if *flagDigests {
				st.Digests = append(st.Digests, o.Digest)
			}
			for k, v := range o.Probes {
				st.Probes[k] += v
			}
			for k, v := range o.Faults {
				st.Faults[k] += v
			}
			st.SimNanos += o.SimNanos
			st.Inconclusive += o.Inconclusive
			if o.NonTrivial {
				st.NonTrivial++
				if len(distinct) < distinctCap {
					distinct[hashStr(o.Behaviour)] = true
				} else {
					st.DistinctCap = true
				}
			}
			if len(st.Samples) < 3 && o.NonTrivial && o.Violation == "" {
				if cj, err := json.Marshal(c); err == nil && len(cj) < 6000 {
					st.Samples = append(st.Samples, cj)
				}
			}
		}
		if o.Violation == "" {
			return
		}
		for _, k := range known {
			if k.re.MatchString(o.Sig) {
				if !frozen {
					st.Known[o.Sig]++
					st.KnownDesc[o.Sig] = k.desc
				}
				return
			}
		}
		// a violation not listed as known: leave the case on disk (the last write is rapid's minimal one)
		cj, _ := json.Marshal(c)
		if o.Replay != nil {
			if nj, err := json.Marshal(o.Replay); err == nil {
				cj = nj
			}
		}
		rf := ReplayFile{Property: prop, Seed: *flagSeed, Worker: *flagWorker, RapidSeed: curRapidSeed, Violation: o.Violation, Sig: o.Sig, Case: cj}
		b, _ := json.MarshalIndent(rf, "", " ")
		_ = os.WriteFile(replayPath, b, 0o644)
		if st.Violation == "" {
			violAt = time.Now()
		}
		st.Violation = o.Violation
		if len(st.Violation) > 3000 {
			st.Violation = st.Violation[:3000] + " ...[truncated; full text in the replay file]"
		}
		st.Sig = o.Sig
		st.ReplayFile = replayPath
		fatal(o.Sig)
	}
	// the rapid failure message is the signature only: rapid compares messages to decide whether
	// a shrunk case is "the same failure", i.e. the same violation class
	property := func(rt *rapid.T) {
		handle(gen(rt), func(sig string) { rt.Fatalf("VIOLATION %s", sig) })
	}
	if len(enum) > 0 {
		nw := *flagWorkers
		if nw < 1 {
			nw = 1
		}
		stopped := false
		for i, c := range enum {
			if i%nw != *flagWorker%nw {
				continue
			}
			handle(c, func(string) { stopped = true })
			st.EnumDone++
			if stopped {
				t.Fail()
				return
			}
		}
	}

	base := splitmix(*flagSeed*1000003 + uint64(*flagWorker)*7919 + 1)
	_ = flag.Set("rapid.checks", fmt.Sprint(*flagBatch))
	_ = flag.Set("rapid.nofailfile", "true")
	if *flagTier == "thorough" {
		_ = flag.Set("rapid.shrinktime", "3m")
	} else {
		_ = flag.Set("rapid.shrinktime", "25s")
	}
	for b := 0; ; b++ {
		if time.Now().After(deadline) && b > 0 {
			break
		}
		if *flagMaxCase > 0 && st.Cases >= *flagMaxCase {
			break
		}
		if st.HarnessErr != "" {
			break
		}
		if st.Nondet != "" && time.Since(start) > 20*time.Second {
			break // keep looking for a reproducible violation for a while, then give up
		}
		curRapidSeed = splitmix(base + uint64(b)*0x100000001b3)
		_ = flag.Set("rapid.seed", fmt.Sprint(curRapidSeed))
		st.Batches++
		if len(st.RapidSeeds) < 8 {
			st.RapidSeeds = append(st.RapidSeeds, curRapidSeed)
		}
		ok := t.Run(fmt.Sprintf("b%d", b), func(t *testing.T) { rapid.Check(t, property) })
		if !ok {
			if st.Violation == "" {
				st.HarnessErr = fmt.Sprintf("rapid batch %d (seed %d) failed without a property violation (see the worker log)", b, curRapidSeed)
			}
			break
		}
	}
}

// tierN picks a bound by tier: the thorough tier explores longer histories and bigger worlds.
func tierN(quick, thorough int) int {
	if *flagTier == "thorough" {
		return thorough
	}
	return quick
}

// digestOf hashes any JSON-marshalable observation log.
func digestOf(v any) string {
	b, err := json.Marshal(v)
	if err != nil {
		return "marshal-error:" + err.Error()
	}
	return hashStr(string(b))
}

func TestMain(m *testing.M) {
	flag.Parse()
	if nodeMain() {
		return
	}
	os.Exit(m.Run())
}
