package harness

// C02 — same database, query and options always give the same ranked answer.
// World L with the map-order scheduler: the iteration order of every map loop of the
// instrumented module is a seeded, replayable choice. The same files are loaded twice
// (independently) under two different order plans and searched twice each; all
// observations must be identical, bit for bit.

import (
	"fmt"
	"os"
	"sort"
	"strings"
	"sync"
	"testing"

	"github.com/Vedant9500/WTF/internal/database"
	"github.com/Vedant9500/WTF/zz_verif/sim/simos"
	"github.com/Vedant9500/WTF/zz_verif/sim/simrt"
	"github.com/Vedant9500/WTF/zz_verif/sim/simtime"
	"pgregory.net/rapid"
)

// OrderPlan is one "schedule" of map iteration orders.
type OrderPlan struct {
	Script []uint32 `json:"script,omitempty"` // explicit Fisher-Yates words, consumed loop by loop
	Seed   uint64   `json:"seed,omitempty"`   // words beyond the script (0 = canonical beyond the script)
	Mask   uint32   `json:"mask,omitempty"`   // non-zero: only loops at sites hashing to a set bit are permuted
	// Sched: goroutine schedule. Every search runs as a task of the cooperative scheduler; goroutines the
	// engine starts itself (rewritten go statements) become further tasks, and this vector decides who runs
	Sched []uint16 `json:"sched,omitempty"`
}

type C02Case struct {
	// Raw: both databases are assembled in code (a command list handed to UpdateDatabase, no derived fields filled in)
	// instead of loaded from files
	Raw bool `json:"assembled_in_code,omitempty"`
	// Big: the first (up to) three entries cycled up to this many: hundreds of matches per query word, exact ties among them
	Big int `json:"big,omitempty"`
	DB       []Cmd     `json:"db,omitempty"`
	Personal []Cmd     `json:"personal,omitempty"` // merged with LoadDatabaseWithPersonal when non-empty
	Shipped  bool      `json:"shipped,omitempty"`  // use the repository's assets/commands.yml instead of DB
	Query    string    `json:"query"`
	Opts     Opts      `json:"opts"`
	Entry    int       `json:"entry"` // index into c02Entries
	Suggest  string    `json:"suggest"`
	NSuggest int       `json:"nsuggest"`
	A        OrderPlan `json:"plan_a"`
	B        OrderPlan `json:"plan_b"`
	// Proc: "in separate processes" - the real CLI is run twice as child processes (world P), once under
	// each order plan, over the same simulated home directory; stdout must be byte-identical.
	// Warmup: other requests sent to database A before the measured calls (B stays fresh): an answer must
	// not depend on what the database was asked before.
	Warmup []C02Warm `json:"warmup,omitempty"`
	// Prev: content database A's object held BEFORE it received the case's content (through the caching layer's
	// UpdateDatabase, the only way the engine replaces content in place). The warm-up requests and the measured
	// request are first sent against that earlier content. "The same database content" must answer the same
	// whatever the object held and was asked before.
	Prev []Cmd `json:"previous_content,omitempty"`
	// ShareOpts: database A's calls (warm-up requests that use the case's options, and the measured ones) all
	// pass the SAME options value, i.e. the same ContextBoosts map object, as a long-lived caller would
	ShareOpts bool     `json:"caller_reuses_options_value,omitempty"`
	Proc      bool     `json:"separate_processes,omitempty"`
	Markers   []string `json:"markers,omitempty"` // project marker files: the context analyzer's boost maps are walked too
	Format    string   `json:"format,omitempty"`
}

type C02Warm struct {
	Query string `json:"query"`
	Opts  Opts   `json:"opts"`
	Entry int    `json:"entry"`
}

var c02Entries = []string{"SearchUniversal", "SearchUniversal", "SearchUniversal", "Search", "SearchWithOptions", "SearchWithPipelineOptions", "SearchWithFuzzy", "SearchWithNLP"}

func genPlan(rt *rapid.T, label string) OrderPlan {
	var p OrderPlan
	switch rapid.IntRange(0, 9).Draw(rt, label+"-kind") {
	case 0: // canonical
	case 1, 2: // short explicit script, canonical afterwards
		p.Script = rapid.SliceOfN(rapid.Uint32Range(0, 40), 1, 40).Draw(rt, label+"-script")
	default:
		p.Sched = genSchedule(rt, 60)
		p.Seed = rapid.Uint64Range(1, 1<<20).Draw(rt, label+"-seed")
		if rapid.IntRange(0, 2).Draw(rt, label+"-masked") == 0 {
			p.Mask = rapid.Uint32().Draw(rt, label+"-mask")
		}
	}
	return p
}

var shippedQueries = []string{"disk usage", "compress files", "find large files", "git commit", "list processes", "comprss fles", "move disk", "extract archive", "show network connections"}

func genC02(rt *rapid.T) C02Case {
	var c C02Case
	c.Shipped = rapid.IntRange(0, 599).Draw(rt, "shipped") == 300 // rare: each shipped-database case costs seconds
	if c.Shipped {
		c.Query = rapid.SampledFrom(shippedQueries).Draw(rt, "squery")
	} else {
		c.DB = genDB(rt, tierN(30, 80))
		if rapid.IntRange(0, 4).Draw(rt, "haspersonal") == 0 {
			c.Personal = genDB(rt, 5)
		}
		c.Query = genQuery(rt, rapid.SampledFrom([]int{1, 2, 4, 12}).Draw(rt, "qmax"))
	}
	if !c.Shipped && len(c.DB) > 0 && rapid.IntRange(0, 39).Draw(rt, "big") == 20 {
		c.Big = rapid.SampledFrom([]int{140, 300, 700}).Draw(rt, "bign")
		if len(c.DB) > 3 {
			c.DB = c.DB[:3]
		}
		ws := searchableWords(c.DB[0].Command, c.DB[0].Description)
		if len(ws) > 0 {
			c.Query = ws[0] + " " + c.Query
		}
	}
	c.Opts = genOpts(rt)
	c.Entry = rapid.IntRange(0, len(c02Entries)-1).Draw(rt, "entry")
	switch rapid.IntRange(0, 2).Draw(rt, "sugg-kind") {
	case 0:
		c.Suggest = misspell(genWord(rt, "sword"), rapid.IntRange(0, 2).Draw(rt, "show"))
	case 1: // misspellings that several vocabulary words match equally well
		c.Suggest = rapid.SampledFrom([]string{"arhive", "archve", "packge", "pakage", "fil", "comit"}).Draw(rt, "stie")
	default:
		c.Suggest = c.Query
	}
	c.NSuggest = rapid.SampledFrom([]int{0, 1, 3, 5}).Draw(rt, "nsugg")
	c.A = genPlan(rt, "a")
	c.B = genPlan(rt, "b")
	c.ShareOpts = rapid.Bool().Draw(rt, "shareopts")
	if !c.Shipped {
		switch rapid.IntRange(0, 7).Draw(rt, "prevkind") {
		case 0: // the same entries rotated: same length, same vocabulary, other positions
			if len(c.DB) > 1 {
				c.Prev = append(append([]Cmd(nil), c.DB[1:]...), c.DB[0])
			}
		case 1: // other entries, same length
			c.Prev = genDB(rt, tierN(30, 80))
			for n0 := len(c.Prev); n0 > 0 && len(c.Prev) < len(c.DB); {
				c.Prev = append(c.Prev, c.Prev[len(c.Prev)%n0])
			}
			if len(c.Prev) > len(c.DB) {
				c.Prev = c.Prev[:len(c.DB)]
			}
		case 2: // other entries, other length
			c.Prev = genDB(rt, 12)
		}
		c.Raw = rapid.IntRange(0, 5).Draw(rt, "raw") == 0
		if rapid.IntRange(0, 2).Draw(rt, "entangle") == 0 {
			c.Opts = entangleBoosts(rt, c.Opts, c.Query)
		}
	}
	if !c.Shipped && rapid.IntRange(0, 2).Draw(rt, "haswarm") == 0 {
		c.Warmup = rapid.SliceOfN(rapid.Custom(func(rt *rapid.T) C02Warm {
			w := C02Warm{Query: c.Query, Opts: c.Opts, Entry: c.Entry}
			switch rapid.IntRange(0, 3).Draw(rt, "warmkind") {
			case 0: // the same request with one option changed (often the limit)
				w.Opts = mutateOpt(rt, c.Opts, rapid.SampledFrom([]string{"limit", "limit", "limit", "nlp", "fuzzy", "cap", "boosts", "pboost"}).Draw(rt, "warmfield"))
			case 1:
				w.Query = genQuery(rt, 4)
			case 2:
				w.Entry = rapid.IntRange(0, len(c02Entries)-1).Draw(rt, "warmentry")
			}
			return w
		}), 1, 4).Draw(rt, "warmup")
	}
	if !c.Shipped && rapid.IntRange(0, 29).Draw(rt, "proc") == 15 {
		c.Proc = true
		c.Markers = rapid.SliceOfNDistinct(rapid.SampledFrom(c17Markers), 0, 6, rapid.ID[string]).Draw(rt, "markers")
		if rapid.Bool().Draw(rt, "ctxwords") {
			// a query and an entry that use words the detected project types boost
			w1, w2 := rapid.SampledFrom(contextWords).Draw(rt, "ctxw1"), rapid.SampledFrom(contextWords).Draw(rt, "ctxw2")
			c.Query = w1 + " " + genWord(rt, "ctxq")
			for i := range c.DB {
				if i%2 == 0 {
					c.DB[i].Description += " " + w1
				} else {
					c.DB[i].Command += " " + w2 + " " + w1
				}
			}
		}
		c.Format = rapid.SampledFrom([]string{"json", "list", "table"}).Draw(rt, "format")
	}
	return c
}

var (
	shippedOnce  sync.Once
	shippedBytes []byte
)

func shippedYAML() []byte {
	shippedOnce.Do(func() {
		for _, p := range []string{"assets/commands.yml", "../../assets/commands.yml"} {
			if b, err := os.ReadFile(p); err == nil {
				shippedBytes = b
				return
			}
		}
	})
	return shippedBytes
}

type c02Obs struct {
	First, Second []Res
	Sugg          []string
	LoadErr       string
	SimErr        string // the cooperative run could not be completed (unsupported blocking operation in the code under test)
	Spawned       int
	Permuted      map[string]int
	Loops         int
}

func c02Search(db *database.Database, entry int, q string, o database.SearchOptions) []database.SearchResult {
	switch c02Entries[entry%len(c02Entries)] {
	case "Search":
		return db.Search(q, o.Limit)
	case "SearchWithOptions":
		return db.SearchWithOptions(q, o)
	case "SearchWithPipelineOptions":
		return db.SearchWithPipelineOptions(q, o)
	case "SearchWithFuzzy":
		return db.SearchWithFuzzy(q, o)
	case "SearchWithNLP":
		return db.SearchWithNLP(q, o)
	}
	return db.SearchUniversal(q, o)
}

// observe loads the files under one order plan and searches twice.
func c02Observe(c C02Case, main, personal []byte, plan OrderPlan, warm []C02Warm, prev []byte) c02Obs {
	var ob c02Obs
	disk := simos.NewDisk()
	simos.Mount(disk, nil)
	defer simos.Unmount()
	disk.WriteRaw("/data/main.yml", main, 0o644)
	if personal != nil {
		disk.WriteRaw("/data/personal.yml", personal, 0o644)
	}
	simrt.SetOrderPlan(plan.Script, plan.Seed, plan.Mask)
	defer simrt.SetOrderCanonical()
	var db *database.Database
	var cdb *database.CachedDatabase
	body := func() {
		// loading is part of the scheduled run: an engine that builds parts of its indexes on goroutines, or waits
		// for them with a timer, does so under the case's schedule and on the simulated clock
		var err error
		switch {
		case c.Raw:
			holder := database.NewCachedDatabase(&database.Database{})
			holder.UpdateDatabase(cmdsToDB(c.DB))
			db = holder.Database
		case personal != nil:
			db, err = database.LoadDatabaseWithPersonal("/data/main.yml", "/data/personal.yml")
		default:
			db, err = database.LoadDatabase("/data/main.yml")
		}
		if err != nil {
			ob.LoadErr = err.Error()
			return
		}
		if prev != nil {
			disk.WriteRaw("/data/prev.yml", prev, 0o644)
			if pdb, perr := database.LoadDatabase("/data/prev.yml"); perr == nil {
				cdb = database.NewCachedDatabase(pdb)
			}
		}
		shared := c.Opts.toDB()
		if shared.ContextBoosts == nil && c.ShareOpts {
			shared.ContextBoosts = map[string]float64{}
		}
		pick := func(o Opts) database.SearchOptions {
			if c.ShareOpts && len(warm) > 0 && len(optDiff(o, c.Opts)) == 0 {
				return shared
			}
			return o.toDB()
		}
		if cdb != nil {
			// the object first serves the earlier content, then receives the case's content in place
			old := cdb.Database
			for _, w := range append(append([]C02Warm(nil), warm...), C02Warm{Query: c.Query, Opts: c.Opts, Entry: c.Entry}) {
				func() {
					defer func() {
						if r := recover(); r != nil && simrt.IsAbort(r) {
							panic(r)
						}
					}()
					_ = c02Search(old, w.Entry, w.Query, pick(w.Opts))
					_ = old.GetSuggestions(c.Suggest, c.NSuggest)
				}()
			}
			cdb.UpdateDatabase(db.Commands)
			db = cdb.Database
		}
		for _, w := range warm {
			func() {
				defer func() { // a crash of a warm-up request is not this property's subject
					if r := recover(); r != nil && simrt.IsAbort(r) {
						panic(r)
					}
				}()
				_ = c02Search(db, w.Entry, w.Query, pick(w.Opts))
			}()
		}
		ob.First = resOf(c02Search(db, c.Entry, c.Query, pick(c.Opts)))
		ob.Second = resOf(c02Search(db, c.Entry, c.Query, pick(c.Opts)))
		ob.Sugg = db.GetSuggestions(c.Suggest, c.NSuggest)
	}
	rr := simrt.Run([]func(){body}, plan.Sched, 200000)
	ob.Spawned = rr.Spawned
	switch {
	case rr.Deadlock:
		ob.SimErr = "deadlock of the simulated run: " + rr.DeadlockInfo
	case rr.OverBudget:
		ob.SimErr = "step budget of the simulated run exceeded"
	}
	for _, pv := range rr.Panics {
		panic(pv) // a crash of the engine: not this property's subject (counted by the runner)
	}
	p, loops, _ := simrt.OrderReport()
	ob.Permuted = map[string]int{}
	for k, v := range p {
		ob.Permuted[k] = v
	}
	ob.Loops = loops
	return ob
}

// diffKind classifies how two result lists differ.
func diffKind(a, b []Res) string {
	if len(a) != len(b) {
		return "set"
	}
	key := func(rs []Res) []string {
		out := make([]string, len(rs))
		for i, r := range rs {
			out[i] = r.Command + "\x00" + r.Desc
		}
		return out
	}
	ka, kb := key(a), key(b)
	sameOrder := true
	for i := range ka {
		if ka[i] != kb[i] {
			sameOrder = false
		}
	}
	if sameOrder {
		return "scores"
	}
	sa, sb := append([]string(nil), ka...), append([]string(nil), kb...)
	sort.Strings(sa)
	sort.Strings(sb)
	for i := range sa {
		if sa[i] != sb[i] {
			return "set"
		}
	}
	return "order"
}

func sitesOf(m map[string]int) string {
	var s []string
	for k := range m {
		s = append(s, k)
	}
	sort.Strings(s)
	return strings.Join(s, ",")
}

// runC02Proc: the same invocation of the real CLI in two child processes under two order plans.
func runC02Proc(c C02Case, o *Outcome) *Outcome {
	mk := func() *pworld {
		w := newPWorld()
		w.disk.WriteRaw(pMainDB, yamlOf(c.DB), 0o644)
		if len(c.Personal) > 0 {
			w.disk.WriteRaw(pNotebook, yamlOf(c.Personal), 0o644)
		}
		for _, m := range c.Markers {
			if strings.HasSuffix(m, "/") {
				w.disk.MkdirAllRaw("/home/u/work/"+strings.TrimSuffix(m, "/"), 0o755)
			} else {
				w.disk.WriteRaw("/home/u/work/"+m, []byte("x\n"), 0o644)
			}
		}
		return w
	}
	args := []string{"-d", pMainDB, "--format", c.Format, "-v", "--limit", "10"}
	if c.Opts.AllPlatforms {
		args = append(args, "--all-platforms")
	}
	args = append(args, strings.Fields(c.Query)...)
	a, b := c.A, c.B
	ra, err := mk().run(argsOf(args...), nil, &a, "pa")
	if err != nil {
		o.Harness = err.Error()
		return o
	}
	rb, err := mk().run(argsOf(args...), nil, &b, "pb")
	if err != nil {
		o.Harness = err.Error()
		return o
	}
	o.Evals = 2
	o.Probes["c02.process_pairs"] = 1
	o.Digest = digestOf([]any{stepDigest(ra), stepDigest(rb)})
	if ra.Exit != "exit" || rb.Exit != "exit" {
		o.Skip = true // crashes are C17's subject
		return o
	}
	if string(ra.Stdout) != string(rb.Stdout) {
		la, lb := strings.Split(string(ra.Stdout), "\n"), strings.Split(string(rb.Stdout), "\n")
		d := 0
		for d < len(la) && d < len(lb) && la[d] == lb[d] {
			d++
		}
		get := func(l []string) string {
			if d < len(l) {
				return l[d]
			}
			return "<end>"
		}
		o.Violation = fmt.Sprintf("two processes running %s over the same files print different output (first difference at line %d):\n   A: %q\n   B: %q\n  map iteration order plans: A %+v, B %+v", quoteArgs(argsOf(args...)), d+1, get(la), get(lb), c.A, c.B)
		o.Sig = "C02/process-output"
		return o
	}
	o.NonTrivial = strings.Contains(string(ra.Stdout), "command") && (c.A.Seed != 0 || len(c.A.Script) > 0 || c.B.Seed != 0 || len(c.B.Script) > 0)
	o.Behaviour = fmt.Sprintf("proc %s markers=%d out=%d", c.Format, len(c.Markers), len(ra.Stdout))
	return o
}

func runC02(c C02Case) *Outcome {
	o := &Outcome{Probes: map[string]int{}}
	if c.Proc {
		return runC02Proc(c, o)
	}
	simtime.Install(simtime.Epoch)
	defer simtime.Uninstall()
	var main, personal []byte
	if c.Shipped {
		main = shippedYAML()
		if main == nil {
			o.Skip = true
			return o
		}
		o.Probes["c02.shipped_db"] = 1
	} else {
		if c.Big > 0 {
			c.DB = blowUp(c.DB, c.Big)
			o.Probes["c02.big_database"] = 1
		}
		main = yamlOf(c.DB)
		if len(c.Personal) > 0 {
			personal = yamlOf(c.Personal)
		}
	}
	var prev []byte
	if len(c.Prev) > 0 {
		prev = yamlOf(c.Prev)
		o.Probes["c02.object_held_other_content_before"] = 1
	}
	a := c02Observe(c, main, personal, c.A, c.Warmup, prev)
	b := c02Observe(c, main, personal, c.B, nil, nil)
	if len(c.Warmup) > 0 {
		o.Probes["c02.warmed_up"] = 1
	}
	entry := c02Entries[c.Entry%len(c02Entries)]
	fail := func(sig, f string, args ...any) *Outcome {
		o.Violation = fmt.Sprintf(f, args...) + fmt.Sprintf("\n  entry point %s, query %q, options %+v\n  map loops given a non-canonical order: plan A {%s}; plan B {%s}", entry, c.Query, c.Opts, sitesOf(a.Permuted), sitesOf(b.Permuted))
		o.Sig = "C02/" + sig
		o.Digest = digestOf([]any{a, b})
		return o
	}
	if a.SimErr != "" || b.SimErr != "" {
		o.Harness = "C02: " + a.SimErr + b.SimErr + " (the code under test blocks on something the simulator does not manage)"
		return o
	}
	o.Probes["c02.goroutines_spawned_by_engine"] = a.Spawned + b.Spawned
	if a.LoadErr != "" || b.LoadErr != "" {
		if a.LoadErr != b.LoadErr {
			return fail("load", "loading the same files gave %q under plan A and %q under plan B", a.LoadErr, b.LoadErr)
		}
		o.Skip = true
		return o
	}
	if !resEqual(a.First, a.Second) {
		return fail("repeat:"+diffKind(a.First, a.Second), "two consecutive identical calls on one loaded database differ:\n   1st %s\n   2nd %s", resString(a.First), resString(a.Second))
	}
	if !resEqual(b.First, b.Second) {
		return fail("repeat:"+diffKind(b.First, b.Second), "two consecutive identical calls on one loaded database differ:\n   1st %s\n   2nd %s", resString(b.First), resString(b.Second))
	}
	if !resEqual(a.First, b.First) {
		hist := ""
		if len(c.Prev) > 0 {
			hist = fmt.Sprintf("; database A's object held %d other entries before and received this content through UpdateDatabase", len(c.Prev))
		}
		return fail("reload:"+diffKind(a.First, b.First), "the same content loaded twice (a different map iteration order each time%s) answers differently:\n   A %s\n   B %s", hist, resString(a.First), resString(b.First))
	}
	if strings.Join(a.Sugg, "\x00") != strings.Join(b.Sugg, "\x00") {
		return fail("suggest", "GetSuggestions(%q, %d) differs between two loads of the same files:\n   A %q\n   B %q", c.Suggest, c.NSuggest, a.Sugg, b.Sugg)
	}
	// coverage accounting
	ties := 0
	for i := 1; i < len(a.First); i++ {
		if a.First[i].Bits == a.First[i-1].Bits {
			ties++
		}
	}
	o.Probes["c02.tie_in_result"] = ties
	if len(a.First) > 0 {
		o.Probes["c02.nonempty_result"] = 1
	}
	if len(a.Sugg) > 0 {
		o.Probes["c02.nonempty_suggestions"] = 1
	}
	o.Probes["c02.loops_permuted"] = len(a.Permuted) + len(b.Permuted)
	sitesDiffer := sitesOf(a.Permuted) != "" || sitesOf(b.Permuted) != ""
	o.NonTrivial = len(a.First) > 1 && sitesDiffer
	o.Behaviour = fmt.Sprintf("%s n=%d ties=%d sugg=%d A{%s} B{%s} nlp=%v fz=%v", entry, len(a.First), ties, len(a.Sugg), sitesOf(a.Permuted), sitesOf(b.Permuted), c.Opts.UseNLP, c.Opts.UseFuzzy)
	o.Digest = digestOf([]any{a.First, a.Sugg})
	return o
}

func TestC02(t *testing.T) { runProperty(t, "C02", genC02, runC02) }
