package harness

// World C helpers: run pre-generated client programs under the cooperative scheduler
// (simrt.Run) and read what the race detector reported for exactly that run.

import (
	"flag"
	"fmt"
	"os"
	"strings"

	"github.com/Vedant9500/WTF/zz_verif/sim/simrt"
	"pgregory.net/rapid"
)

var flagRaceLog = flag.String("verif.racelog", "", "GORACE log_path prefix (the detector appends .<pid>)")

var raceLogOff int64

// raceReportsSince returns the race detector output written since the last call.
func raceReportsSince() string {
	if *flagRaceLog == "" {
		return ""
	}
	p := fmt.Sprintf("%s.%d", *flagRaceLog, os.Getpid())
	b, err := os.ReadFile(p)
	if err != nil || int64(len(b)) <= raceLogOff {
		return ""
	}
	s := string(b[raceLogOff:])
	raceLogOff = int64(len(b))
	return s
}

// CRun is the outcome of one scheduled concurrent run.
type CRun struct {
	Res        *simrt.RunResult
	Races      int    // data races the detector reported during this run
	RaceReport string // their text (first report, trimmed)
}

// runClients executes the clients under the schedule vector.
func runClients(clients []func(), schedule []uint16, maxSteps int) CRun {
	raceReportsSince() // drop anything older
	before := simrt.RaceErrors()
	res := simrt.Run(clients, schedule, maxSteps)
	cr := CRun{Res: res, Races: simrt.RaceErrors() - before}
	if cr.Races > 0 {
		rep := raceReportsSince()
		if i := strings.Index(rep, "=================="); i >= 0 {
			rep = rep[i:]
		}
		if j := strings.Index(rep[min(len(rep), 20):], "=================="); j >= 0 {
			rep = rep[:j+20+18]
		}
		cr.RaceReport = trimRace(rep)
	}
	return cr
}

// trimRace keeps the informative frames of a race report (drops harness frames and addresses,
// which differ between processes, so the text is stable enough to read; it is never compared).
func trimRace(rep string) string {
	var out []string
	for _, l := range strings.Split(rep, "\n") {
		t := strings.TrimSpace(l)
		if t == "" || strings.HasPrefix(t, "runtime.") || strings.HasPrefix(t, "testing.") {
			continue
		}
		out = append(out, l)
		if len(out) > 60 {
			break
		}
	}
	return strings.Join(out, "\n")
}

// raceSite extracts a short stable signature of a race report: the first two source
// positions inside the module's internal/ tree.
func raceSite(rep string) string {
	var sites []string
	for _, l := range strings.Split(rep, "\n") {
		t := strings.TrimSpace(l)
		i := strings.Index(t, "internal/")
		if i < 0 || !strings.Contains(t, ".go:") {
			continue
		}
		t = t[i:]
		if j := strings.Index(t, " "); j >= 0 {
			t = t[:j]
		}
		// drop the line number: instrumented line numbers shift with unrelated edits
		if j := strings.LastIndex(t, ":"); j >= 0 {
			t = t[:j]
		}
		if len(sites) == 0 || sites[len(sites)-1] != t {
			sites = append(sites, t)
		}
		if len(sites) == 2 {
			break
		}
	}
	return strings.Join(sites, "+")
}

// genSchedule draws a schedule vector. Uniformly random vectors switch clients at almost every step
// and practically never let one client run through a long stretch while another stays parked at one
// particular point; half of the vectors are therefore built from runs (the same choice repeated for
// 1..55 steps), which is what windows between two critical sections need.
func genSchedule(rt *rapid.T, maxLen int) []uint16 {
	if rapid.Bool().Draw(rt, "sched-uniform") {
		return rapid.SliceOfN(rapid.Uint16Range(0, 3), 0, maxLen).Draw(rt, "schedule")
	}
	type run struct {
		v uint16
		n int
	}
	runs := rapid.SliceOfN(rapid.Custom(func(rt *rapid.T) run {
		return run{rapid.Uint16Range(0, 3).Draw(rt, "who"), rapid.SampledFrom([]int{1, 1, 2, 3, 5, 8, 13, 21, 34, 55}).Draw(rt, "len")}
	}), 0, 24).Draw(rt, "runs")
	var out []uint16
	for _, r := range runs {
		for i := 0; i < r.n && len(out) < maxLen; i++ {
			out = append(out, r.v)
		}
	}
	return out
}

// interleavingSig is the sub-sequence of scheduler decisions taken when more than one
// client was runnable: two runs with the same signature executed the same interleaving.
func interleavingSig(r *simrt.RunResult) string {
	var sb strings.Builder
	for _, d := range r.Decisions {
		fmt.Fprintf(&sb, "%d", d.Picked)
	}
	return sb.String()
}
