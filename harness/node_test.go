package harness

// nodeMain runs the harness binary in node mode (world P); filled in by node_impl_test.go.
var nodeMainImpl func() bool

func nodeMain() bool {
	if nodeMainImpl != nil {
		return nodeMainImpl()
	}
	return false
}
