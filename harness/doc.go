// Package harness holds the simulated workloads, reference models and oracles.
package harness
