//go:build chanselftest

package harness

import (
	"context"
	"fmt"
	"testing"
	"time"

	"github.com/Vedant9500/WTF/internal/zzchan"
	"github.com/Vedant9500/WTF/zz_verif/sim/simrt"
	"github.com/Vedant9500/WTF/zz_verif/sim/simtime"
)

// TestChanSim: self-test of the simulated channels (bin/selftest-channels).
func TestChanSim(t *testing.T) {
	scheds := [][]uint16{nil, {1, 1, 1, 0, 1, 0, 0, 1, 1, 0, 1}, {0, 1, 2, 3, 0, 1, 2, 3, 3, 2, 1, 0, 2, 2, 1}, {3, 3, 3, 3, 3, 3, 1, 1, 1, 1, 1, 1, 1, 0, 0, 0, 2, 2}}
	for i := 0; i < 40; i++ {
		var s []uint16
		x := uint32(i*2654435761 + 12345)
		for j := 0; j < 60; j++ {
			x = x*1664525 + 1013904223
			s = append(s, uint16(x>>16)%4)
		}
		scheds = append(scheds, s)
	}
	run := func(name string, sched []uint16, f ...func()) *simrt.RunResult {
		before := simrt.RaceErrors()
		rr := simrt.Run(f, sched, 20000)
		if name != "racy" && simrt.RaceErrors() != before {
			t.Fatalf("%s: the race detector reported a race on correctly synchronised code (schedule %v)", name, sched)
		}
		if name != "deadlock" && (rr.Deadlock || rr.OverBudget) {
			t.Fatalf("%s: run did not complete: deadlock=%v (%s) overbudget=%v (schedule %v)", name, rr.Deadlock, rr.DeadlockInfo, rr.OverBudget, sched)
		}
		for _, p := range rr.Panics {
			t.Fatalf("%s: panic %s", name, p)
		}
		return rr
	}
	racesSeen, tickRuns := 0, 0
	for _, sc := range scheds {
		var sum int
		run("unbuffered", sc, func() { sum = zzchan.Unbuffered(5) })
		if sum != 15 {
			t.Fatalf("unbuffered: sum %d", sum)
		}
		var ran, inline int
		run("semaphore", sc, func() { ran, inline = zzchan.Semaphore(6, 2) })
		if ran+inline != 6 || ran < 2 {
			t.Fatalf("semaphore: ran %d inline %d", ran, inline)
		}
		fl := &zzchan.Flight{}
		vals := make([]int, 3)
		mk := func(i int) func() {
			return func() { vals[i] = fl.Do("k", func() int { simrt.Yield("compute"); return 99 }) }
		}
		run("singleflight", sc, mk(0), mk(1), mk(2))
		if vals[0] != 99 || vals[1] != 99 || vals[2] != 99 || fl.Runs < 1 || fl.Runs > 3 {
			t.Fatalf("singleflight: %v runs %d", vals, fl.Runs)
		}
		var got int
		var ok bool
		run("selectboth", sc, func() { got, ok = zzchan.SelectBoth() })
		if got != 42 || !ok {
			t.Fatalf("selectboth: %d %v", got, ok)
		}
		rr := run("background", sc, func() { w := zzchan.Background(); w <- 1; w <- 2 })
		if rr.Leaked != 1 {
			t.Fatalf("background: leaked %d", rr.Leaked)
		}
		ctx, cancel := context.WithCancel(context.Background())
		var n int
		var cancelled bool
		work := make(chan int, 8)
		run("cancel", sc, func() { n, cancelled = zzchan.Cancel(ctx, work) }, func() { simrt.Yield("a"); simrt.Yield("b"); cancel() })
		if !cancelled || n != 0 {
			t.Fatalf("cancel: n %d cancelled %v", n, cancelled)
		}
		before := simrt.RaceErrors()
		run("racy", sc, func() { _ = zzchan.Racy() })
		if simrt.RaceErrors() > before {
			racesSeen++
		}
		rr = run("deadlock", sc, func() { zzchan.Deadlock() })
		if !rr.Deadlock {
			t.Fatalf("deadlock: not detected")
		}
		q := zzchan.NewQueue(2)
		total := 0
		run("cond-queue", sc, func() {
			for i := 1; i <= 6; i++ {
				q.Put(i)
			}
		}, func() {
			for i := 0; i < 3; i++ {
				total += q.Get()
			}
		}, func() {
			for i := 0; i < 3; i++ {
				v := q.Get()
				simrt.Yield("x")
				_ = v
			}
		})
		if total < 6 || total > 15 {
			t.Fatalf("cond-queue: total %d", total)
		}
		// timers on the simulated clock
		simtime.Install(simtime.Epoch)
		var tv int
		var tok bool
		wk := make(chan int, 1)
		run("timeout-fires", sc, func() { tv, tok = zzchan.Timeout(wk, 5*time.Second) })
		if tok || simtime.NowNS()-simtime.Epoch.UnixNano() != int64(5*time.Second) {
			t.Fatalf("timeout-fires: %d %v clock moved %v", tv, tok, time.Duration(simtime.NowNS()-simtime.Epoch.UnixNano()))
		}
		wk <- 9
		run("timeout-work", sc, func() { tv, tok = zzchan.Timeout(wk, 5*time.Second) })
		if !tok || tv != 9 {
			t.Fatalf("timeout-work: %d %v", tv, tok)
		}
		simtime.Install(simtime.Epoch)
		var took time.Duration
		run("backoff", sc, func() { took = zzchan.Backoff(3, 100*time.Millisecond) })
		if took != 700*time.Millisecond || fmt.Sprint(simtime.Sleeps()) != "[100ms 200ms 400ms]" {
			t.Fatalf("backoff: took %v sleeps %v", took, simtime.Sleeps())
		}
		simtime.Install(simtime.Epoch)
		var ticks int
		run("janitor", sc, func() {
			j := zzchan.StartJanitor(time.Minute)
			for i := 0; i < 3; i++ {
				simtime.Sleep(time.Minute)
				simrt.Yield("between sleeps")
				simrt.Yield("between sleeps")
				simrt.Yield("between sleeps")
			}
			ticks = j.Stop()
		})
		if ticks < 0 || ticks > 60 {
			t.Fatalf("janitor: %d ticks", ticks)
		}
		if ticks > 0 {
			tickRuns++
		}
		var o1, o2 string
		run("syncmap", sc, func() { o1 = zzchan.SyncMapOrder(); o2 = zzchan.SyncMapOrder() })
		if o1 != o2 || len(o1) != 6 {
			t.Fatalf("syncmap: two fresh maps were walked in different orders: %q %q", o1, o2)
		}
		box := &zzchan.Box{}
		run("method-values", sc, func() { box.Add(1); box.Add(2) }, func() { box.Add(3) }, func() { _ = box.N(); box.Add(4) })
		if box.N() != 10 {
			t.Fatalf("method-values: %d", box.N())
		}
		simtime.Install(simtime.Epoch)
		var spun int
		run("spinwait", sc, func() { spun = zzchan.SpinWait() })
		if spun != 2 {
			t.Fatalf("spinwait: %d", spun)
		}
		simtime.Uninstall()
		var a, l1, l2 int
		run("closed", sc, func() { a, ok, l1, l2 = zzchan.ClosedRecv() })
		if a != 7 || ok || l1 != 2 || l2 != 0 {
			t.Fatalf("closed: %d %v %d %d", a, ok, l1, l2)
		}
	}
	if tickRuns == 0 {
		t.Fatalf("janitor: the ticker never woke the background goroutine under any schedule")
	}
	if simrt.RaceEnabled && racesSeen == 0 {
		t.Fatalf("racy: the detector never reported the race (the simulated channel adds an edge Go's does not)")
	}
	t.Logf("chansim ok: %d schedules, race seen in %d", len(scheds), racesSeen)
}
