package harness

// C03 — the inverted index answers exactly like an exhaustive scan of the commands, and
// never lags behind them. World L: histories of load / merge / replace / append
// operations over the simulated disk, each followed by searches that are compared with
// (a) an exhaustive scan using an independently written tokenizer, (b) the documented
// BM25F sum recomputed from the texts, (c) a database freshly loaded from the current
// command list (freshness of the index and of the re-ranker).

import (
	"fmt"
	"math"
	"sort"
	"strings"
	"testing"
	"unicode"
	"unicode/utf8"

	"github.com/Vedant9500/WTF/internal/database"
	"github.com/Vedant9500/WTF/internal/nlp"
	"github.com/Vedant9500/WTF/zz_verif/sim/simos"
	"github.com/Vedant9500/WTF/zz_verif/sim/simrt"
	"github.com/Vedant9500/WTF/zz_verif/sim/simtime"
	"pgregory.net/rapid"
)

type C03Op struct {
	Kind string `json:"k"` // load loadpersonal update loadmon grow search
	DB   int    `json:"db,omitempty"`
	PDB  int    `json:"pdb,omitempty"`
	Q    int    `json:"q,omitempty"`
	O    int    `json:"o,omitempty"`
	N    int    `json:"n,omitempty"`   // grow: how many entries of DB to append
	Raw  bool   `json:"raw,omitempty"` // update / loadmon / grow: commands built in code, without the loader's lower-cased copies
}

type C03Case struct {
	// Sched: schedule vector for goroutines / channels / select choices of the code under test (single-task case body = first task)
	Sched   []uint16 `json:"sched,omitempty"`
	DBs     [][]Cmd  `json:"dbs"`
	Queries []string `json:"queries"`
	Options []Opts   `json:"options"`
	Ops     []C03Op  `json:"ops"`
	// Big: when > 0, the first database is blown up to this many entries by cycling its entries (a counter
	// word is appended to each copy): limits that only bite on thousands of matches become reachable
	Big int `json:"big,omitempty"`
}

var oddTexts = []string{"größe anzeigen", "日本語 ファイル", "naïve café", "snake_case_name", "dots.and-dashes", "x", "a b c", "UPPER lower MiXed", "tar!zip?", "(paren) [bracket]", "tab\tsep", "emoji 😀 disk", "bad\xffutf8 disk", "123 4567", "v2.0-beta", "", "the and of", "zip,tar;gz"}

func genC03DB(rt *rapid.T, max int) []Cmd {
	db := genDB(rt, max)
	for i := range db {
		if rapid.IntRange(0, 5).Draw(rt, "odd") == 0 {
			t := rapid.SampledFrom(oddTexts).Draw(rt, "oddtext")
			switch rapid.IntRange(0, 3).Draw(rt, "oddwhere") {
			case 0:
				db[i].Command += " " + t
			case 1:
				db[i].Description = t + " " + db[i].Description
			case 2:
				db[i].Keywords = append(db[i].Keywords, t)
			default:
				db[i].Tags = append(db[i].Tags, t)
			}
		}
		// entries that are pipelines by their text only (flag false): eligibility must not depend on how the
		// entry reached the database
		if rapid.IntRange(0, 7).Draw(rt, "textpipe") == 0 {
			db[i].Pipeline = false
			db[i].Command += rapid.SampledFrom([]string{" | sort", " && echo ok", " >> out.log", " | PIPE"}).Draw(rt, "pipetext")
		}
	}
	return db
}

func genC03(rt *rapid.T) C03Case {
	var c C03Case
	ndb := rapid.IntRange(1, 4).Draw(rt, "ndb")
	for i := 0; i < ndb; i++ {
		c.DBs = append(c.DBs, genC03DB(rt, rapid.SampledFrom([]int{0, 3, 12, tierN(30, 80)}).Draw(rt, "dbmax")))
	}
	if rapid.IntRange(0, 249).Draw(rt, "big") == 125 {
		c.Big = rapid.SampledFrom([]int{1100, 2100, 2600, 4200}).Draw(rt, "bign")
	}
	nq := rapid.IntRange(1, 4).Draw(rt, "nq")
	for i := 0; i < nq; i++ {
		q := genQuery(rt, rapid.SampledFrom([]int{1, 3, 6, 14}).Draw(rt, "qmax"))
		if rapid.IntRange(0, 5).Draw(rt, "qodd") == 0 {
			q += " " + rapid.SampledFrom(oddTexts).Draw(rt, "qoddtext")
		}
		c.Queries = append(c.Queries, q)
	}
	no := rapid.IntRange(1, 3).Draw(rt, "no")
	for i := 0; i < no; i++ {
		var o Opts
		o.Limit = 1000
		o.AllPlatforms = true
		if rapid.IntRange(0, 2).Draw(rt, "boosts") == 0 {
			// keys are looked up exactly as given: besides plain words, spellings that differ from a query word only in
			// letter case or surrounding blanks (what a Makefile target or a script name looks like), and more than one key
			o.ContextBoosts = map[string]float64{}
			nb := rapid.SampledFrom([]int{1, 1, 2, 3}).Draw(rt, "nboosts")
			for bi := 0; bi < nb; bi++ {
				w := genWord(rt, "bw")
				switch rapid.SampledFrom([]int{0, 0, 0, 1, 2, 3}).Draw(rt, "bwform") {
				case 1:
					if r := []rune(w); len(r) > 0 {
						w = strings.ToUpper(string(r[:1])) + string(r[1:])
					}
				case 2:
					w = strings.ToUpper(w)
				case 3:
					w = " " + w + " "
				}
				o.ContextBoosts[w] = rapid.SampledFrom([]float64{1.5, 2, 3, 0.5}).Draw(rt, "bf")
			}
		}
		o.PipelineBoost = rapid.SampledFrom([]float64{0, 0, 1.5, 2}).Draw(rt, "pboost")
		o.PipelineOnly = rapid.IntRange(0, 5).Draw(rt, "ponly") == 0
		o.TopTermsCap = rapid.SampledFrom([]int{0, 0, 0, 1, 2, 3, 5}).Draw(rt, "cap")
		c.Options = append(c.Options, o)
	}
	kinds := swarmKinds(rt, []string{"load", "loadpersonal", "update", "update", "loadmon", "grow", "grow", "search", "search", "search", "search"}, "search")
	opGen := rapid.Custom(func(rt *rapid.T) C03Op {
		op := C03Op{Kind: rapid.SampledFrom(kinds).Draw(rt, "kind")}
		op.DB = rapid.IntRange(0, len(c.DBs)-1).Draw(rt, "db")
		op.PDB = rapid.IntRange(0, len(c.DBs)-1).Draw(rt, "pdb")
		op.Q = rapid.IntRange(0, len(c.Queries)-1).Draw(rt, "q")
		op.O = rapid.IntRange(0, len(c.Options)-1).Draw(rt, "o")
		op.N = rapid.IntRange(1, 4).Draw(rt, "n")
		op.Raw = rapid.IntRange(0, 2).Draw(rt, "raw") == 0
		return op
	})
	c.Ops = rapid.SliceOfN(opGen, 1, tierN(25, 60)).Draw(rt, "ops")
	if rapid.IntRange(0, 3).Draw(rt, "hassched") == 0 {
		c.Sched = genSchedule(rt, 40)
	}
	return c
}

// ---- reference: documented tokenizer and BM25F, written independently of the engine

var refStop = nlp.StopWords()

func refTokens(s string) []string {
	// normalise: everything except ASCII letters, digits, '_', white space, '-' and '.' becomes a space
	var sb strings.Builder
	for len(s) > 0 {
		r, n := utf8.DecodeRuneInString(s)
		s = s[n:]
		keep := (r >= 'a' && r <= 'z') || (r >= 'A' && r <= 'Z') || (r >= '0' && r <= '9') || r == '_' || r == '-' || r == '.' ||
			r == ' ' || r == '\t' || r == '\n' || r == '\r' || r == '\f' || r == '\v'
		if keep && !(r == utf8.RuneError && n == 1) {
			sb.WriteRune(unicode.ToLower(r))
		} else {
			sb.WriteByte(' ')
		}
	}
	var out []string
	for _, w := range strings.FieldsFunc(sb.String(), func(r rune) bool { return !unicode.IsLetter(r) && !unicode.IsNumber(r) }) {
		if len(w) < 2 || refStop[w] {
			continue
		}
		out = append(out, w)
	}
	return out
}

type refDoc struct {
	fields [4][]string // command, description, keywords, tags
	tf     [4]map[string]int
	pipe   bool
}

func refIndex(cmds []database.Command) ([]refDoc, [4]float64, map[string]int) {
	docs := make([]refDoc, len(cmds))
	var sum [4]float64
	df := map[string]int{}
	for i, c := range cmds {
		texts := [4]string{c.Command, c.Description, strings.Join(c.Keywords, " "), strings.Join(c.Tags, " ")}
		seen := map[string]bool{}
		for f := 0; f < 4; f++ {
			docs[i].fields[f] = refTokens(texts[f])
			docs[i].tf[f] = map[string]int{}
			for _, t := range docs[i].fields[f] {
				docs[i].tf[f][t]++
				seen[t] = true
			}
			sum[f] += float64(len(docs[i].fields[f]))
		}
		for t := range seen {
			df[t]++
		}
		docs[i].pipe = database.VerifIsPipeline(&cmds[i]) // the repository's own predicate, taken as the definition
	}
	var avg [4]float64
	for f := 0; f < 4; f++ {
		if len(cmds) > 0 {
			avg[f] = sum[f] / float64(len(cmds))
		}
	}
	return docs, avg, df
}

func runC03(c C03Case) *Outcome {
	return scheduledOutcome(c.Sched, func() *Outcome { return runC03Body(c) })
}

func runC03Body(c C03Case) *Outcome {
	o := &Outcome{Probes: map[string]int{}}
	if c.Big > 0 && len(c.DBs) > 0 && len(c.DBs[0]) > 0 {
		base := c.DBs[0]
		big := make([]Cmd, 0, c.Big)
		for i := 0; len(big) < c.Big; i++ {
			e := base[i%len(base)]
			e.Description = fmt.Sprintf("%s n%d", e.Description, i)
			big = append(big, e)
		}
		dbs := append([][]Cmd{big}, c.DBs[1:]...)
		c.DBs = dbs
		o.Probes["c03.big_database"] = 1
	}
	simrt.SetOrderCanonical()
	simtime.Install(simtime.Epoch)
	defer simtime.Uninstall()
	disk := simos.NewDisk()
	simos.Mount(disk, nil)
	defer simos.Unmount()
	var log []string
	fail := func(sig, f string, a ...any) *Outcome {
		o.Violation = fmt.Sprintf(f, a...) + "\n  history: " + strings.Join(log, " ; ")
		o.Sig = "C03/" + sig
		o.Digest = digestOf(log)
		return o
	}
	k1, w, b := database.VerifBM25FParams()
	var db *database.Database
	var mdb *database.MonitoredDatabase
	var cur []Cmd // reference model: the current command list
	load := func(main, personal []Cmd, withPersonal bool) error {
		disk.WriteRaw("/data/main.yml", yamlOf(main), 0o644)
		var err error
		if withPersonal {
			disk.WriteRaw("/data/personal.yml", yamlOf(personal), 0o644)
			db, err = database.LoadDatabaseWithPersonal("/data/main.yml", "/data/personal.yml")
		} else {
			db, err = database.LoadDatabase("/data/main.yml")
		}
		if err == nil {
			mdb = database.NewMonitoredDatabase(db)
		}
		return err
	}
	if err := load(c.DBs[0], nil, false); err != nil {
		return fail("load", "loading a generated database failed: %v", err)
	}
	cur = append([]Cmd(nil), c.DBs[0]...)
	log = append(log, "load(db0)")
	var beh []string
	// rawInList: some command of the current list was handed over without the loader's lower-cased copies;
	// NLP boosts read those copies, so only the NLP-off comparison with a freshly loaded copy is meaningful then
	rawInList := false
	conv := func(cs []Cmd, raw bool) []database.Command {
		if raw {
			return cmdsToDB(cs)
		}
		return cmdsToDBPopulated(cs)
	}
	replaced, grown, merged, checked, longq := 0, 0, 0, 0, 0
	for i, op := range c.Ops {
		d := c.DBs[op.DB%len(c.DBs)]
		switch op.Kind {
		case "load":
			if err := load(d, nil, false); err != nil {
				return fail("load", "step %d: load failed: %v", i, err)
			}
			cur = append([]Cmd(nil), d...)
			rawInList = false
			log = append(log, fmt.Sprintf("load(db%d)", op.DB%len(c.DBs)))
			beh = append(beh, "l")
		case "loadpersonal":
			p := c.DBs[op.PDB%len(c.DBs)]
			if err := load(d, p, true); err != nil {
				return fail("load", "step %d: load with personal failed: %v", i, err)
			}
			cur = append(append([]Cmd(nil), d...), p...)
			rawInList = false
			merged++
			log = append(log, fmt.Sprintf("loadpersonal(db%d,db%d)", op.DB%len(c.DBs), op.PDB%len(c.DBs)))
			beh = append(beh, "p")
		case "update":
			mdb.UpdateDatabase(conv(d, op.Raw))
			cur = append([]Cmd(nil), d...)
			rawInList = op.Raw && len(d) > 0
			replaced++
			log = append(log, fmt.Sprintf("update(db%d,raw=%v)", op.DB%len(c.DBs), op.Raw))
			beh = append(beh, "u")
		case "loadmon":
			_ = mdb.LoadDatabaseWithMonitoring(conv(d, op.Raw))
			cur = append([]Cmd(nil), d...)
			rawInList = op.Raw && len(d) > 0
			replaced++
			log = append(log, fmt.Sprintf("loadmon(db%d,raw=%v)", op.DB%len(c.DBs), op.Raw))
			beh = append(beh, "m")
		case "grow":
			n := op.N
			if n > len(d) {
				n = len(d)
			}
			if n == 0 {
				continue
			}
			db.Commands = append(db.Commands, conv(d[:n], op.Raw)...)
			cur = append(cur, d[:n]...)
			rawInList = rawInList || op.Raw
			grown++
			log = append(log, fmt.Sprintf("grow(db%d[:%d],raw=%v)", op.DB%len(c.DBs), n, op.Raw))
			beh = append(beh, "g")
		case "search":
			q := c.Queries[op.Q%len(c.Queries)]
			opts := c.Options[op.O%len(c.Options)]
			opts.UseNLP, opts.UseFuzzy = false, false
			if opts.Limit <= len(cur) {
				opts.Limit = len(cur) + 1 // the oracle speaks about everything a search CAN return: the limit must not cut
			}
			got := db.SearchUniversal(q, opts.toDB())
			log = append(log, fmt.Sprintf("search(%q,%+v)=%d", q, opts, len(got)))
			checked++
			// ---- reference
			cmds := cmdsToDB(cur)
			docs, avg, df := refIndex(cmds)
			qt := refTokens(q)
			var distinct []string
			seenT := map[string]bool{}
			repeated := false
			for _, t := range qt {
				if seenT[t] {
					repeated = true
					continue
				}
				seenT[t] = true
				distinct = append(distinct, t)
			}
			capN := opts.TopTermsCap
			if capN <= 0 {
				capN = 10
			}
			exact := len(qt) <= capN || len(distinct) <= capN
			eligible := func(d refDoc) bool { return !opts.PipelineOnly || d.pipe }
			matches := func(terms []string) map[int]bool {
				m := map[int]bool{}
				for j, d := range docs {
					if !eligible(d) {
						continue
					}
					for _, t := range terms {
						if d.tf[0][t]+d.tf[1][t]+d.tf[2][t]+d.tf[3][t] > 0 {
							m[j] = true
							break
						}
					}
				}
				return m
			}
			// identify returned documents by position in the current list
			pos := map[*database.Command]int{}
			for j := range db.Commands {
				pos[&db.Commands[j]] = j
			}
			gotSet := map[int]float64{}
			for _, r := range got {
				j, ok := pos[r.Command]
				if !ok {
					return fail("foreign-result", "step %d: a result (%q) does not belong to the commands being searched: the index lags behind the command list", i, r.Command.Command)
				}
				if _, dup := gotSet[j]; dup {
					return fail("duplicate-result", "step %d: entry %d (%q) is returned twice", i, j, r.Command.Command)
				}
				gotSet[j] = r.Score
			}
			if len(db.Commands) != len(cur) {
				return fail("model", "harness: model holds %d commands, database %d", len(cur), len(db.Commands))
			}
			all := matches(distinct)
			if exact {
				for j := range all {
					if _, ok := gotSet[j]; !ok {
						return fail("missing-match", "step %d: entry %d %q contains a query word of %q (terms %v) but is not returned", i, j, cur[j].Command+" / "+cur[j].Description, q, distinct)
					}
				}
			} else {
				longq++
				// "the first four": the first four word positions of the query (repeats among them count once)
				var first []string
				seenF := map[string]bool{}
				for k, t := range qt {
					if k >= 4 {
						break
					}
					if !seenF[t] {
						seenF[t] = true
						first = append(first, t)
					}
				}
				for j := range matches(first) {
					if _, ok := gotSet[j]; !ok {
						return fail("missing-match", "step %d: entry %d %q contains one of the first four query words %v but is not returned", i, j, cur[j].Command, first)
					}
				}
			}
			for j := range gotSet {
				if !all[j] {
					return fail("spurious-result", "step %d: entry %d %q is returned for %q but none of the query words %v occurs in its command, description, keywords or tags (or it is not eligible)", i, j, cur[j].Command+" / "+cur[j].Description, q, distinct)
				}
			}
			// (b) scores
			if exact && !repeated {
				n := float64(len(docs))
				for j, gs := range gotSet {
					var s float64
					for _, t := range distinct {
						dft := float64(df[t])
						if dft == 0 {
							continue
						}
						idf := math.Log((n-dft+0.5)/(dft+0.5) + 1)
						boost := 1.0
						if bv, ok := opts.ContextBoosts[t]; ok && bv > 0 {
							boost = bv
						}
						var per float64
						for f := 0; f < 4; f++ {
							tf := float64(docs[j].tf[f][t])
							if tf == 0 {
								continue
							}
							ad := avg[f]
							if ad <= 0 {
								ad = 1
							}
							norm := (1 - b[f]) + b[f]*(float64(len(docs[j].fields[f]))/ad)
							per += (w[f] * tf * (k1 + 1)) / (w[f]*tf + k1*norm)
						}
						s += idf * boost * per
					}
					if docs[j].pipe && opts.PipelineBoost > 0 {
						s *= opts.PipelineBoost
					}
					if math.Abs(gs-s) > 1e-9*math.Max(1, math.Abs(s)) {
						return fail("score", "step %d: entry %d %q scores %v for %q; the BM25F sum recomputed from the texts is %v", i, j, cur[j].Command, gs, q, s)
					}
				}
				// rank order
				for k := 1; k < len(got); k++ {
					if got[k].Score > got[k-1].Score {
						return fail("rank-order", "step %d: results are not in descending score order at position %d", i, k)
					}
				}
			}
			// (c) freshness: the evolved object answers like a database loaded afresh from the current list
			disk.WriteRaw("/data/fresh.yml", yamlOf(cur), 0o644)
			fresh, ferr := database.LoadDatabase("/data/fresh.yml")
			if ferr != nil {
				return fail("load", "step %d: loading the current list afresh failed: %v", i, ferr)
			}
			for _, nlpOn := range []bool{false, true} {
				if nlpOn && rawInList {
					continue
				}
				fo := opts
				fo.UseNLP = nlpOn
				fo.Limit = 50
				a := resOf(db.SearchUniversal(q, fo.toDB()))
				bb := resOf(fresh.SearchUniversal(q, fo.toDB()))
				if !resEqual(a, bb) {
					sig := "stale-index"
					if nlpOn {
						sig = "stale-reranker"
					}
					return fail(sig, "step %d: after this history the database answers %q (NLP %v) with %s; a database loaded afresh from the same command list answers %s", i, q, nlpOn, resString(a), resString(bb))
				}
			}
			beh = append(beh, fmt.Sprintf("s%d", len(got)))
		}
	}
	o.Probes["c03.searches_checked"] = checked
	o.Probes["c03.replaced"] = replaced
	o.Probes["c03.grown"] = grown
	o.Probes["c03.merged_personal"] = merged
	o.Probes["c03.long_query_bounds"] = longq
	o.NonTrivial = checked > 0 && (replaced+grown+merged) > 0
	o.Behaviour = strings.Join(beh, "")
	o.Digest = digestOf(log)
	return o
}

var _ = sort.Ints

func TestC03(t *testing.T) { runProperty(t, "C03", genC03, runC03) }
