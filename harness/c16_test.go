package harness

// C16 — search history is a bounded, ordered, faithfully persisted log (library part).
// World L: histories of add / save / load-into-a-fresh-object / clear / clock steps over
// the simulated disk and clock, with stored-file damage and hand-made documents placed
// between save and load, compared step by step with a reference log.

import (
	"encoding/json"
	"fmt"
	"sort"
	"strconv"
	"strings"
	"testing"
	"time"
	"unicode/utf8"

	"github.com/Vedant9500/WTF/internal/history"
	"github.com/Vedant9500/WTF/zz_verif/sim/simos"
	"github.com/Vedant9500/WTF/zz_verif/sim/simrt"
	"github.com/Vedant9500/WTF/zz_verif/sim/simtime"
	"pgregory.net/rapid"
)

type C16Op struct {
	Kind string `json:"k"` // add save load clear advance damage handmade
	Q    int    `json:"q,omitempty"`
	N    int    `json:"n,omitempty"`
	Ctx  int    `json:"ctx,omitempty"`
	Dur  int64  `json:"dur_ms,omitempty"`
	Adv  int64  `json:"adv,omitempty"`
	How  string `json:"how,omitempty"` // damage: flip truncate zero garbage dir remove empty
	Arg  int    `json:"arg,omitempty"`
	Doc  string `json:"doc,omitempty"` // handmade document
	K    int    `json:"view_k,omitempty"`
	Seed uint32 `json:"order_seed,omitempty"`
	// Reuse (load): Load is called on the object in use instead of on a new one
	Reuse bool `json:"same_object,omitempty"`
	// fill: FillN searches with distinct queries of FillLen characters in a row (files of hundreds of KiB)
	FillN   int `json:"fill_n,omitempty"`
	FillLen int `json:"fill_len,omitempty"`
}

type C16Case struct {
	Linked bool `json:"history_is_link,omitempty"` // the history path is a symbolic link to the real file (dotfile managers)
	Path int `json:"path,omitempty"` // index into c16Paths
	// Sched: schedule vector for goroutines / channels / select choices of the code under test (single-task case body = first task)
	Sched   []uint16 `json:"sched,omitempty"`
	Max     int      `json:"max"`     // constructor argument
	Queries []string `json:"queries"` // Go-quoted
	Ops     []C16Op  `json:"ops"`
	CLI     *C16CLI  `json:"cli,omitempty"` // when set: the CLI part (process histories), the fields above are unused
}

var c16Contexts = []string{"", "git", "docker node"}

var c16Docs = []string{
	`{"entries": [], "max_size": 0}`,
	`{"entries": [{"query":"old","timestamp":"2020-01-01T00:00:00Z","results_count":1}], "max_size": 0}`,
	`{"entries": [{"query":"old","timestamp":"2020-01-01T00:00:00Z","results_count":1}], "max_size": -1}`,
	`{"entries": [{"query":"a","timestamp":"2020-01-01T00:00:00Z","results_count":1},{"query":"b","timestamp":"2020-01-02T00:00:00Z","results_count":2},{"query":"c","timestamp":"2020-01-03T00:00:00Z","results_count":3}], "max_size": -7}`,
	`{"entries": [{"query":"a","timestamp":"2020-01-01T00:00:00Z","results_count":1},{"query":"b","timestamp":"2020-01-02T00:00:00Z","results_count":2},{"query":"c","timestamp":"2020-01-03T00:00:00Z","results_count":3}], "max_size": 2}`,
	`{"entries": null, "max_size": 3}`,
	`{"entries": [], "max_size": 9223372036854775807}`,
	`{"max_size": -3, "entries": "not a list"}`,
	`{"max_size": 0, "entries": 7}`,
	`{"entries": [{"query":"a","timestamp":"2020-01-01T00:00:00Z"}], "max_size": "ten"}`,
	`{"max_size": -2}`,
	`{"entries": [{"query": 5}], "max_size": 4}`,
	`{"entries": [{"query":"x","timestamp":"not a time"}], "max_size": -1}`,
	`[]`,
	`null`,
	`{}`,
	`{"entries": [{"query":"dup","timestamp":"2020-01-01T00:00:00Z"},{"query":"dup","timestamp":"2020-01-02T00:00:00Z"}], "max_size": 5}`,
	`{"max_size": -1, "entries": [{"query":"a","timestamp":"2020-01-01T00:00:00Z","results_count":"many"}]}`,
	"\x00\x01\x02",
	`{"entries": [`,
	"\n", "   ", " \n\t ", "\xef\xbb\xbf", "\xef\xbb\xbf{}", "\xef\xbb\xbf\n", "\r\n",
}

func genC16(rt *rapid.T) C16Case {
	var c C16Case
	if rapid.IntRange(0, 39).Draw(rt, "cli") == 20 {
		c.CLI = genC16CLI(rt)
		return c
	}
	c.Max = rapid.SampledFrom([]int{1, 2, 3, 5, 100, 0, -4}).Draw(rt, "max")
	c.Path = rapid.IntRange(0, len(c16Paths)-1).Draw(rt, "path")
	c.Linked = rapid.IntRange(0, 5).Draw(rt, "linked") == 0
	pool := []string{"disk usage", "git commit", "compress files", "find large files", "Disk Usage", "x", "größe anzeigen", "tab\tnew\nline", "quote\"back\\slash", "", " ", "bad\xffutf8"}
	nq := rapid.IntRange(1, 5).Draw(rt, "nq")
	for i := 0; i < nq; i++ {
		// stored Go-quoted: a replay file (JSON) could not carry invalid UTF-8 otherwise
		c.Queries = append(c.Queries, strconv.Quote(rapid.SampledFrom(pool[:rapid.SampledFrom([]int{4, 4, 10, len(pool)}).Draw(rt, "poolcut")]).Draw(rt, "query")))
	}
	kinds := swarmKinds(rt, []string{"add", "add", "add", "add", "add", "save", "save", "load", "load", "clear", "advance", "advance", "damage", "handmade"}, "add")
	if rapid.IntRange(0, 24).Draw(rt, "bulky") == 12 {
		kinds = append(kinds, "fill") // rare: each costs milliseconds
		if rapid.Bool().Draw(rt, "bigmax") {
			c.Max = 3000
		}
	}
	opGen := rapid.Custom(func(rt *rapid.T) C16Op {
		op := C16Op{Kind: rapid.SampledFrom(kinds).Draw(rt, "kind")}
		switch op.Kind {
		case "add":
			op.Q = rapid.IntRange(0, len(c.Queries)-1).Draw(rt, "q")
			op.N = rapid.IntRange(0, 7).Draw(rt, "n")
			op.Ctx = rapid.IntRange(0, len(c16Contexts)-1).Draw(rt, "ctx")
			op.Dur = int64(rapid.IntRange(0, 40).Draw(rt, "dur"))
		case "advance":
			op.Adv = rapid.SampledFrom([]int64{0, 1, int64(time.Millisecond), int64(time.Second), int64(26 * time.Hour)}).Draw(rt, "adv")
		case "damage":
			op.How = rapid.SampledFrom([]string{"flip", "truncate", "zero", "garbage", "dir", "remove", "empty"}).Draw(rt, "how")
			op.Arg = rapid.IntRange(0, 5000).Draw(rt, "arg")
		case "handmade":
			op.Doc = rapid.SampledFrom(c16Docs).Draw(rt, "doc")
		case "load":
			op.Reuse = rapid.IntRange(0, 2).Draw(rt, "reuse") == 0
		case "fill":
			switch rapid.IntRange(0, 2).Draw(rt, "fillkind") {
			case 0:
				op.FillN, op.FillLen = 120, 12
			case 1:
				op.FillN, op.FillLen = 95, 4000
			default:
				op.FillN, op.FillLen = 2600, 24
			}
		}
		op.K = rapid.SampledFrom([]int{0, 1, 2, 3, 10, -1}).Draw(rt, "k")
		op.Seed = rapid.Uint32Range(0, 16).Draw(rt, "oseed")
		return op
	})
	c.Ops = rapid.SliceOfN(opGen, 1, tierN(40, 120)).Draw(rt, "ops")
	if rapid.IntRange(0, 3).Draw(rt, "hassched") == 0 {
		c.Sched = genSchedule(rt, 40)
	}
	return c
}

type histEntry struct {
	q   string
	n   int
	ctx string
	dur int64
	ts  time.Time
}

const c16DefaultPath = "/home/u/.config/wtf/search_history.json"

// c16Paths: where the history file lives is the caller's choice (the CLI derives it from XDG_CONFIG_HOME / HOME): names
// with pattern metacharacters, spaces, non-ASCII, a directory that does not exist yet
var c16Paths = []string{c16DefaultPath, c16DefaultPath, c16DefaultPath, "/home/u/cfg [old/wtf/search_history.json", "/home/u/c*fg/wtf/h?story.json", "/home/u/my config/wtf/history file.json", "/home/u/k\u00f6nfig/wtf/h.json", "/home/u/a]b[c/h{1,2}.json", "/home/u/work/not yet there/deep/er/history.json"}

func entriesOf(sh *history.SearchHistory) []histEntry {
	out := make([]histEntry, len(sh.Entries))
	for i, e := range sh.Entries {
		out[i] = histEntry{e.Query, e.ResultsCount, e.Context, e.Duration, e.Timestamp}
	}
	return out
}

func histEqual(a, b []histEntry) string {
	if len(a) != len(b) {
		return fmt.Sprintf("%d entries, expected %d", len(a), len(b))
	}
	for i := range a {
		if a[i].q != b[i].q || a[i].n != b[i].n || a[i].ctx != b[i].ctx || a[i].dur != b[i].dur || !a[i].ts.Equal(b[i].ts) {
			return fmt.Sprintf("entry %d is %q/%d/%q/%dms@%s, expected %q/%d/%q/%dms@%s", i, a[i].q, a[i].n, a[i].ctx, a[i].dur, a[i].ts.Format(time.RFC3339Nano), b[i].q, b[i].n, b[i].ctx, b[i].dur, b[i].ts.Format(time.RFC3339Nano))
		}
	}
	return ""
}

// checkViews compares the derived views with the entries.
func checkViews(sh *history.SearchHistory, m []histEntry, k int) string {
	kk := k
	if kk <= 0 {
		kk = 10
	}
	// recent: distinct, newest first, at most k
	var want []string
	seen := map[string]bool{}
	for i := len(m) - 1; i >= 0 && len(want) < kk; i-- {
		if !seen[m[i].q] {
			seen[m[i].q] = true
			want = append(want, m[i].q)
		}
	}
	got := sh.GetRecentQueries(k)
	if strings.Join(got, "\x00") != strings.Join(want, "\x00") || len(got) != len(want) {
		return fmt.Sprintf("GetRecentQueries(%d) = %q, expected %q (distinct, newest first)", k, got, want)
	}
	// top
	count := map[string]int{}
	last := map[string]time.Time{}
	for _, e := range m {
		count[e.q]++
		if e.ts.After(last[e.q]) {
			last[e.q] = e.ts
		}
	}
	top := sh.GetTopQueries(k)
	wantLen := len(count)
	if wantLen > kk {
		wantLen = kk
	}
	if len(top) != wantLen {
		return fmt.Sprintf("GetTopQueries(%d) returned %d queries, expected %d", k, len(top), wantLen)
	}
	inTop := map[string]bool{}
	sum := 0
	minTop := 1 << 30
	for i, f := range top {
		if inTop[f.Query] {
			return fmt.Sprintf("GetTopQueries(%d) lists %q twice", k, f.Query)
		}
		inTop[f.Query] = true
		if f.Count != count[f.Query] {
			return fmt.Sprintf("GetTopQueries(%d): %q has frequency %d, the log holds it %d times", k, f.Query, f.Count, count[f.Query])
		}
		if i > 0 && top[i-1].Count < f.Count {
			return fmt.Sprintf("GetTopQueries(%d) is not ordered by frequency: %v", k, top)
		}
		sum += f.Count
		if f.Count < minTop {
			minTop = f.Count
		}
	}
	var cqs []string
	for q := range count {
		cqs = append(cqs, q)
	}
	sort.Strings(cqs)
	for _, q := range cqs {
		n := count[q]
		if !inTop[q] && n > minTop {
			return fmt.Sprintf("GetTopQueries(%d) omits %q (%d times) but lists a query used %d times", k, q, n, minTop)
		}
	}
	if wantLen == len(count) && sum != len(m) {
		return fmt.Sprintf("frequencies of all queries sum to %d, the log has %d entries", sum, len(m))
	}
	// stats
	st := sh.GetStats()
	if st.TotalSearches != len(m) || st.UniqueQueries != len(count) {
		return fmt.Sprintf("GetStats: total %d unique %d, expected %d / %d", st.TotalSearches, st.UniqueQueries, len(m), len(count))
	}
	if len(m) > 0 {
		if !st.OldestEntry.Equal(m[0].ts) || !st.NewestEntry.Equal(m[len(m)-1].ts) {
			return fmt.Sprintf("GetStats: oldest %v newest %v, expected %v / %v", st.OldestEntry, st.NewestEntry, m[0].ts, m[len(m)-1].ts)
		}
		tot := 0
		for _, e := range m {
			tot += e.n
		}
		if st.AvgResultsPerSearch != float64(tot)/float64(len(m)) {
			return fmt.Sprintf("GetStats: average results %v, expected %v", st.AvgResultsPerSearch, float64(tot)/float64(len(m)))
		}
	}
	// pattern
	if len(m) > 0 {
		pat := m[len(m)-1].q
		if len(pat) > 3 {
			pat = strings.ToUpper(pat[:3])
		}
		wantN := 0
		for _, e := range m {
			if strings.Contains(strings.ToLower(e.q), strings.ToLower(pat)) {
				wantN++
			}
		}
		res := sh.GetEntriesByPattern(pat)
		if len(res) != wantN {
			return fmt.Sprintf("GetEntriesByPattern(%q) returned %d entries, %d match", pat, len(res), wantN)
		}
		for i := 1; i < len(res); i++ {
			if res[i].Timestamp.After(res[i-1].Timestamp) {
				return fmt.Sprintf("GetEntriesByPattern(%q) is not newest first", pat)
			}
		}
	}
	return ""
}

func runC16(c C16Case) *Outcome {
	if c.CLI != nil {
		return runC16Body(c)
	}
	return scheduledOutcome(c.Sched, func() *Outcome { return runC16Body(c) })
}

func runC16Body(c C16Case) *Outcome {
	c16Path := c16Paths[c.Path%len(c16Paths)]
	o := &Outcome{Probes: map[string]int{}}
	if c.CLI != nil {
		return runC16CLI(c.CLI, o)
	}
	simtime.Install(simtime.Epoch)
	defer simtime.Uninstall()
	simrt.SetOrderCanonical()
	defer simrt.SetOrderCanonical()
	disk := simos.NewDisk()
	simos.Mount(disk, nil)
	defer simos.Unmount()
	simos.SetClock(simtime.Now)
	if c.Linked {
		disk.SymlinkRaw(c16Path, "history.real.json") // dangling until the first save; a save may replace it by a file
	}
	var log []string
	fail := func(sig, f string, a ...any) *Outcome {
		o.Violation = fmt.Sprintf(f, a...) + "\n  history file " + strconv.Quote(c16Path) + "\n  history: " + strings.Join(log, " ; ")
		o.Sig = "C16/" + sig
		o.Digest = digestOf(log)
		return o
	}
	maxInForce := c.Max
	if maxInForce <= 0 {
		maxInForce = 100 // documented default of the constructor; verified below
	}
	sh := history.NewSearchHistory(c16Path, c.Max)
	if sh.MaxSize <= 0 {
		return fail("nonpositive-max", "NewSearchHistory(%d) has maximum %d", c.Max, sh.MaxSize)
	}
	maxInForce = sh.MaxSize
	var m []histEntry     // reference log
	var saved []histEntry // what the file holds when the tool wrote it last and nobody touched it
	fileOurs := false     // the file content is exactly what Save wrote
	trusted := true       // the in-memory object descends from self-written files only
	var beh []string
	collapsed, trimmed, roundtrips, damagedLoads := 0, 0, 0, 0
	guard := func(what string, f func()) (pan any) {
		defer func() {
			if pan = recover(); pan != nil && simrt.IsAbort(pan) {
				panic(pan)
			}
		}()
		f()
		return nil
	}
	for i, op := range c.Ops {
		if op.Seed != 0 {
			simrt.SetOrderPlan(nil, uint64(op.Seed), 0)
		} else {
			simrt.SetOrderCanonical()
		}
		switch op.Kind {
		case "advance":
			simtime.Advance(time.Duration(op.Adv))
			o.SimNanos += op.Adv
			log = append(log, fmt.Sprintf("adv(%d)", op.Adv))
			beh = append(beh, "v")
		case "add":
			q, uerr := strconv.Unquote(c.Queries[op.Q%len(c.Queries)])
			if uerr != nil {
				q = c.Queries[op.Q%len(c.Queries)]
			}
			ctx := c16Contexts[op.Ctx%len(c16Contexts)]
			if p := guard("add", func() { sh.AddEntry(q, op.N, ctx, time.Duration(op.Dur)*time.Millisecond) }); p != nil {
				log = append(log, fmt.Sprintf("add(%q)", q))
				return fail("add-panic", "step %d: AddEntry(%q) panicked: %v (maximum in force %d)", i, q, p, sh.MaxSize)
			}
			log = append(log, fmt.Sprintf("add(%q,%d)", q, op.N))
			// JSON cannot carry invalid UTF-8: for such a query the log may hold either the exact bytes or
			// the text with each invalid sequence replaced by U+FFFD (and must then round-trip that exactly).
			forms := []string{q}
			if !utf8.ValidString(q) {
				forms = append(forms, strings.ToValidUTF8(q, "\uFFFD"))
			}
			applied := false
			for _, form := range forms {
				cand := append([]histEntry(nil), m...)
				e := histEntry{form, op.N, ctx, op.Dur, simtime.Now()}
				how := "a"
				if len(cand) > 0 && cand[len(cand)-1].q == form {
					cand[len(cand)-1] = e
					how = "A"
				} else {
					cand = append(cand, e)
					if sh.MaxSize > 0 {
						maxInForce = sh.MaxSize
					}
					if len(cand) > maxInForce {
						cand = cand[len(cand)-maxInForce:]
						how = "t"
					}
				}
				if form == forms[len(forms)-1] || histEqual(entriesOf(sh), cand) == "" {
					m = cand
					switch how {
					case "A":
						collapsed++
					case "t":
						trimmed++
					}
					beh = append(beh, how)
					q = form
					applied = true
					break
				}
			}
			_ = applied
			// whatever the file said: the search just recorded is the newest entry
			if len(sh.Entries) == 0 || sh.Entries[len(sh.Entries)-1].Query != q {
				return fail("add-lost", "step %d: after AddEntry(%q) the newest entry is not that search (the log holds %d entries, maximum in force %d)", i, q, len(sh.Entries), sh.MaxSize)
			}
		case "fill":
			var pan any
			for k := 0; k < op.FillN && pan == nil; k++ {
				q := fmt.Sprintf("fill %d-%d %s", i, k, strings.Repeat("q", op.FillLen))
				pan = guard("add", func() { sh.AddEntry(q, k%7, "", time.Duration(k%40)*time.Millisecond) })
				m = append(m, histEntry{q, k % 7, "", int64(k % 40), simtime.Now()})
				if sh.MaxSize > 0 {
					maxInForce = sh.MaxSize
				}
				if len(m) > maxInForce {
					m = m[len(m)-maxInForce:]
					trimmed++
				}
			}
			log = append(log, fmt.Sprintf("fill(%d searches of %d characters)", op.FillN, op.FillLen))
			if pan != nil {
				return fail("add-panic", "step %d: AddEntry panicked during a run of %d searches: %v", i, op.FillN, pan)
			}
			beh = append(beh, "F")
		case "save":
			var err error
			if p := guard("save", func() { err = sh.Save() }); p != nil {
				return fail("save-panic", "step %d: Save panicked: %v", i, p)
			}
			log = append(log, fmt.Sprintf("save=%v", err))
			if err != nil {
				if _, isDir := disk.Files[c16Path]; isDir && disk.Files[c16Path].IsDir() {
					beh = append(beh, "sE")
					continue // a directory sits where the file should be: an error is the right answer
				}
				return fail("save-error", "step %d: Save failed on a healthy disk: %v", i, err)
			}
			saved = append([]histEntry(nil), m...)
			fileOurs = true
			beh = append(beh, "s")
		case "clear":
			var err error
			if p := guard("clear", func() { err = sh.Clear() }); p != nil {
				return fail("clear-panic", "step %d: Clear panicked: %v", i, p)
			}
			log = append(log, fmt.Sprintf("clear=%v", err))
			m = nil
			if err == nil {
				saved = nil
				fileOurs = true
			}
			trusted = true
			beh = append(beh, "c")
		case "damage":
			b, ok := disk.ReadRaw(c16Path)
			switch op.How {
			case "remove":
				disk.RemoveRaw(c16Path)
			case "dir":
				disk.RemoveRaw(c16Path)
				disk.MkdirAllRaw(c16Path, 0o755)
			case "empty":
				disk.WriteRaw(c16Path, nil, 0o644)
			case "garbage":
				disk.WriteRaw(c16Path, []byte("\x7fELF\x00\x00{]]"), 0o644)
			default:
				if !ok || len(b) == 0 {
					continue
				}
				nb := append([]byte(nil), b...)
				switch op.How {
				case "flip":
					j := op.Arg % (8 * len(nb))
					nb[j/8] ^= 1 << uint(j%8)
				case "truncate":
					nb = nb[:op.Arg%len(nb)]
				case "zero":
					j := op.Arg % len(nb)
					for k := j; k < len(nb) && k < j+16; k++ {
						nb[k] = 0
					}
				}
				disk.WriteRaw(c16Path, nb, 0o644)
			}
			fileOurs = false
			log = append(log, fmt.Sprintf("damage(%s,%d)", op.How, op.Arg))
			beh = append(beh, "d")
		case "handmade":
			disk.RemoveRaw(c16Path)
			disk.WriteRaw(c16Path, []byte(op.Doc), 0o644)
			fileOurs = false
			log = append(log, fmt.Sprintf("handmade(%s)", op.Doc))
			beh = append(beh, "h")
		case "load":
			fresh := history.NewSearchHistory(c16Path, c.Max)
			if op.Reuse {
				fresh = sh // Load on the object in use (it may hold entries the file does not): the file's content must replace them
			}
			var err error
			if p := guard("load", func() { err = fresh.Load() }); p != nil {
				return fail("load-panic", "step %d: Load panicked: %v", i, p)
			}
			log = append(log, fmt.Sprintf("load(same object=%v)=%v", op.Reuse, err != nil))
			sh = fresh
			_, exists := disk.Files[c16Path]
			// fileOurs: nobody but the tool touched the file since its last Save / Clear. If the tool itself removed
			// it (a Clear that deletes instead of writing an empty log), what it persisted is still `saved`.
			if fileOurs {
				_ = exists
				if err != nil {
					return fail("roundtrip", "step %d: Load of the file Save wrote fails: %v", i, err)
				}
				roundtrips++
				want := saved
				if d := histEqual(entriesOf(sh), want); d != "" {
					sig := "roundtrip"
					for _, e := range want {
						if !utf8.ValidString(e.q) {
							sig = "roundtrip:invalid-utf8"
						}
					}
					return fail(sig, "step %d: saving and loading does not give back the same entries: %s", i, d)
				}
				m = append([]histEntry(nil), want...)
				trusted = true
				beh = append(beh, "l")
			} else {
				// absent, damaged or hand-made file: Load returned; follow what it produced
				damagedLoads++
				m = entriesOf(sh)
				// whatever it keeps of a foreign file must be that file's most recent entries (a suffix), in order
				if raw, ok := disk.ReadRaw(c16Path); ok && err == nil && len(m) > 0 {
					var doc struct {
						Entries []struct {
							Query string `json:"query"`
						} `json:"entries"`
					}
					if json.Unmarshal(raw, &doc) == nil && len(doc.Entries) >= len(m) {
						tail := doc.Entries[len(doc.Entries)-len(m):]
						for j := range m {
							if tail[j].Query != m[j].q {
								return fail("load-not-most-recent", "step %d: the file holds %d entries; the %d kept after Load are not its most recent ones (kept[%d]=%q, file tail[%d]=%q)", i, len(doc.Entries), len(m), j, m[j].q, j, tail[j].Query)
							}
						}
					}
				}
				trusted = false
				beh = append(beh, "L")
			}
			if sh.MaxSize > 0 {
				maxInForce = sh.MaxSize
			}
		}
		// after every step
		if d := histEqual(entriesOf(sh), m); d != "" {
			return fail("log-mismatch", "step %d (%s): the log differs from the reference: %s", i, op.Kind, d)
		}
		if trusted && len(sh.Entries) > maxInForce {
			return fail("bound", "step %d: %d entries exceed the maximum %d", i, len(sh.Entries), maxInForce)
		}
		var verr string
		if p := guard("views", func() { verr = checkViews(sh, m, op.K) }); p != nil {
			return fail("view-panic", "step %d: a view panicked: %v", i, p)
		}
		if verr != "" {
			return fail("view", "step %d (%s): %s", i, op.Kind, verr)
		}
	}
	o.Probes["history.tail_collapse"] = collapsed
	o.Probes["history.trimmed"] = trimmed
	o.Probes["history.roundtrip_checked"] = roundtrips
	o.Probes["history.load_of_foreign_file"] = damagedLoads
	o.NonTrivial = (collapsed > 0 || trimmed > 0) && (roundtrips > 0 || damagedLoads > 0)
	o.Behaviour = fmt.Sprintf("max=%d %s", c.Max, strings.Join(beh, ""))
	o.Digest = digestOf(log)
	return o
}

var _ = json.Marshal
var _ = sort.Strings

func TestC16(t *testing.T) { runProperty(t, "C16", genC16, runC16) }
