package harness

// World P: every simulated invocation of `wtf` is a real child process (this test
// binary re-executed in node mode), because internal/cli keeps cobra command and flag
// state in package globals and because a crash must not run deferred functions. The
// driver (parent) owns the persistent state: disk image, wall clock, environment.

import (
	"context"
	"encoding/json"
	"flag"
	"fmt"
	"os"
	"os/exec"
	"path/filepath"
	"runtime/debug"
	"strings"
	"time"

	"github.com/Vedant9500/WTF/internal/database"
	"github.com/Vedant9500/WTF/zz_verif/node"
	"github.com/Vedant9500/WTF/zz_verif/sim/simos"
	"github.com/Vedant9500/WTF/zz_verif/sim/simrand"
	"github.com/Vedant9500/WTF/zz_verif/sim/simrt"
	"github.com/Vedant9500/WTF/zz_verif/sim/simtime"
)

var (
	flagNodeJob    = flag.String("verif.node.job", "", "node mode: job file")
	flagNodeResult = flag.String("verif.node.result", "", "node mode: result file")
)

// NodeJob is one simulated process invocation.
type NodeJob struct {
	Args    [][]byte      `json:"args"` // argv[1:], arbitrary bytes
	Disk    *simos.Disk   `json:"disk"`
	ClockNS int64         `json:"clock_ns"`
	Faults  []simos.Fault `json:"faults,omitempty"`
	Order   *OrderPlan    `json:"order,omitempty"` // nil = canonical map order
	TickNS  int64         `json:"tick_ns,omitempty"`
	Rand    int64         `json:"rand_seed,omitempty"` // seed of the process's math/rand stand-in (0: 1)
	// Sched: the process's main goroutine is the first task of a cooperative run; goroutines it starts, the channels
	// between them and the choices of its select statements follow this vector (empty: lowest task first)
	Sched []uint16 `json:"sched,omitempty"`
}

type NodeTap struct {
	Name    string `json:"name"`
	Query   string `json:"query"`
	Limit   int    `json:"limit"`
	Results []Res  `json:"results"`
	Err     string `json:"err,omitempty"`
}

// NodeResult is what the node reports back.
type NodeResult struct {
	Exit    string         `json:"exit"` // exit | panic | killed
	Code    int            `json:"code"`
	Panic   string         `json:"panic,omitempty"`
	Stack   string         `json:"stack,omitempty"`
	Disk    *simos.Disk    `json:"disk"`
	Trace   []simos.Event  `json:"trace"`
	Sleeps  []int64        `json:"sleeps,omitempty"`
	Taps    []NodeTap      `json:"taps,omitempty"`
	Fired   map[string]int `json:"fired,omitempty"`
	Kill    *simos.Event   `json:"kill,omitempty"`
	ClockNS int64          `json:"clock_end_ns"`
	Stdout  []byte         `json:"-"`
	Stderr  []byte         `json:"-"`
}

func init() { nodeMainImpl = nodeRun }

func nodeRun() bool {
	if *flagNodeJob == "" {
		return false
	}
	b, err := os.ReadFile(*flagNodeJob)
	if err != nil {
		fmt.Fprintln(os.Stderr, "node: cannot read job:", err)
		os.Exit(98)
	}
	var job NodeJob
	if err := json.Unmarshal(b, &job); err != nil {
		fmt.Fprintln(os.Stderr, "node: bad job:", err)
		os.Exit(98)
	}
	if job.Disk.Files == nil {
		job.Disk.Files = map[string]*simos.Inode{}
	}
	if job.Disk.Env == nil {
		job.Disk.Env = map[string]string{}
	}
	simtime.Install(time.Unix(0, job.ClockNS))
	if job.Rand == 0 {
		job.Rand = 1
	}
	simrand.Install(job.Rand)
	simos.SetClock(simtime.Now)
	simos.Mount(job.Disk, job.Faults)
	if job.Order != nil {
		simrt.SetOrderPlan(job.Order.Script, job.Order.Seed, job.Order.Mask)
	} else {
		simrt.SetOrderCanonical()
	}
	simrt.EnableTaps(true)
	finish := func(res *NodeResult, code int) {
		res.Disk = simos.Current()
		res.Trace = simos.Trace()
		for _, d := range simtime.Sleeps() {
			res.Sleeps = append(res.Sleeps, int64(d))
		}
		res.Fired = simos.Fired()
		res.ClockNS = simtime.NowNS()
		for _, t := range simrt.Taps() {
			nt := NodeTap{Name: t.Name}
			if len(t.Args) > 0 {
				if q, ok := t.Args[0].(string); ok {
					nt.Query = q
				}
			}
			if len(t.Args) > 1 {
				if so, ok := t.Args[1].(database.SearchOptions); ok {
					nt.Limit = so.Limit
				}
			}
			for _, r := range t.Results {
				switch v := r.(type) {
				case []database.SearchResult:
					nt.Results = resOf(v)
				case error:
					if v != nil {
						nt.Err = v.Error()
					}
				}
			}
			res.Taps = append(res.Taps, nt)
		}
		out, _ := json.Marshal(res)
		if err := os.WriteFile(*flagNodeResult, out, 0o644); err != nil {
			fmt.Fprintln(os.Stderr, "node: cannot write result:", err)
			os.Exit(98)
		}
		os.Stdout.Sync()
		os.Exit(code)
	}
	simos.SetKillHook(func(k simos.KillInfo) {
		ev := k.Event
		finish(&NodeResult{Exit: "killed", Code: 137, Kill: &ev}, 137)
	})
	simos.SetExitHook(func(code int) { finish(&NodeResult{Exit: "exit", Code: code}, code) })
	args := []string{"wtf"}
	for _, a := range job.Args {
		args = append(args, string(a))
	}
	os.Args = args
	simrt.ExitWithMain = true
	rr := simrt.Run([]func(){func() {
		defer func() {
			if r := recover(); r != nil {
				if simrt.IsAbort(r) {
					panic(r)
				}
				if ep, ok := r.(simos.ExitPanic); ok {
					finish(&NodeResult{Exit: "exit", Code: ep.Code}, ep.Code)
				}
				finish(&NodeResult{Exit: "panic", Code: 2, Panic: fmt.Sprint(r), Stack: trimStack(string(debug.Stack()))}, 2)
			}
		}()
		node.WtfMain()
	}}, job.Sched, 5_000_000)
	for _, pv := range rr.Panics { // a goroutine the program started panicked
		finish(&NodeResult{Exit: "panic", Code: 2, Panic: pv}, 2)
	}
	if rr.Deadlock {
		finish(&NodeResult{Exit: "fatal", Code: 2, Panic: "all goroutines are asleep - deadlock! (" + rr.DeadlockInfo + ")"}, 2)
	}
	if rr.OverBudget {
		finish(&NodeResult{Exit: "fatal", Code: 2, Panic: "the process did not end within the step budget of the simulated run"}, 2)
	}
	finish(&NodeResult{Exit: "exit", Code: 0}, 0)
	return true
}

func trimStack(s string) string {
	// source positions only (no addresses, no goroutine ids): the text must be identical across processes
	var out []string
	for _, l := range strings.Split(s, "\n") {
		l = strings.TrimSpace(l)
		if !strings.Contains(l, ".go:") || strings.Contains(l, "zz_verif/") || strings.HasPrefix(l, "runtime/") || strings.HasPrefix(l, "testing/") {
			continue
		}
		if i := strings.Index(l, " +0x"); i >= 0 {
			l = l[:i]
		}
		out = append(out, l)
		if len(out) > 14 {
			break
		}
	}
	return strings.Join(out, " < ")
}

// nodeDir is where this worker keeps job/result files.
func nodeDir() string {
	d := *flagOut
	if d == "" {
		d = os.TempDir()
	}
	d = filepath.Join(d, fmt.Sprintf("node-w%d-%d", *flagWorker, os.Getpid()))
	_ = os.MkdirAll(d, 0o755)
	return d
}

var nodeSelf string

// errNodeHarness marks trouble of the harness itself (watchdog, protocol): never a verdict.
type errNodeHarness struct{ msg string }

func (e errNodeHarness) Error() string { return e.msg }

// runNode executes one simulated process and returns its result. tag distinguishes
// concurrent users inside one worker (enumerations run several nodes at once).
func runNode(job *NodeJob, tag string) (*NodeResult, error) {
	if nodeSelf == "" {
		p, err := os.Executable()
		if err != nil {
			return nil, errNodeHarness{"cannot locate the harness binary: " + err.Error()}
		}
		nodeSelf = p
	}
	dir := nodeDir()
	jobPath := filepath.Join(dir, "job-"+tag+".json")
	resPath := filepath.Join(dir, "result-"+tag+".json")
	outPath := filepath.Join(dir, "stdout-"+tag)
	errPath := filepath.Join(dir, "stderr-"+tag)
	jb, err := json.Marshal(job)
	if err != nil {
		return nil, errNodeHarness{"cannot encode job: " + err.Error()}
	}
	if err := os.WriteFile(jobPath, jb, 0o644); err != nil {
		return nil, errNodeHarness{err.Error()}
	}
	os.Remove(resPath)
	so, err := os.Create(outPath)
	if err != nil {
		return nil, errNodeHarness{err.Error()}
	}
	defer so.Close()
	se, err := os.Create(errPath)
	if err != nil {
		return nil, errNodeHarness{err.Error()}
	}
	defer se.Close()
	ctx, cancel := context.WithTimeout(context.Background(), 60*time.Second)
	defer cancel()
	cmd := exec.CommandContext(ctx, nodeSelf, "-verif.node.job", jobPath, "-verif.node.result", resPath)
	cmd.Stdout = so
	cmd.Stderr = se
	cmd.Env = append(os.Environ(), "GOMAXPROCS=2", "GOGC=off")
	runErr := cmd.Run()
	for attempt := 0; runErr != nil && attempt < 5; attempt++ {
		if _, exited := runErr.(*exec.ExitError); exited || ctx.Err() != nil {
			break
		}
		// the child could not be started at all (fork: resource temporarily unavailable on an overloaded machine):
		// that says nothing about the code under test - wait a little and try again
		time.Sleep(time.Duration(200*(attempt+1)) * time.Millisecond)
		so.Truncate(0)
		se.Truncate(0)
		cmd = exec.CommandContext(ctx, nodeSelf, "-verif.node.job", jobPath, "-verif.node.result", resPath)
		cmd.Stdout = so
		cmd.Stderr = se
		cmd.Env = append(os.Environ(), "GOMAXPROCS=2", "GOGC=off")
		runErr = cmd.Run()
	}
	if ctx.Err() != nil {
		return nil, errNodeHarness{"node exceeded the 60 s wall-clock watchdog (no verdict)"}
	}
	if runErr != nil {
		if _, exited := runErr.(*exec.ExitError); !exited {
			return nil, errNodeHarness{"the child process could not be started: " + runErr.Error()}
		}
	}
	stdout, _ := os.ReadFile(outPath)
	stderr, _ := os.ReadFile(errPath)
	rb, rerr := os.ReadFile(resPath)
	if rerr != nil {
		// the process died without going through the node's exit paths: a Go fatal error
		// (concurrent map write, stack overflow, out of memory) or os.Exit in unshimmed code
		code := -1
		if ee, ok := runErr.(*exec.ExitError); ok {
			code = ee.ExitCode()
		}
		return &NodeResult{Exit: "fatal", Code: code, Panic: lastLines(string(stderr), 12), Stdout: stdout, Stderr: stderr}, nil
	}
	var res NodeResult
	if err := json.Unmarshal(rb, &res); err != nil {
		return nil, errNodeHarness{"bad node result: " + err.Error()}
	}
	res.Stdout, res.Stderr = stdout, stderr
	return &res, nil
}

func lastLines(s string, n int) string {
	ls := strings.Split(strings.TrimSpace(s), "\n")
	if len(ls) > n {
		ls = ls[len(ls)-n:]
	}
	return strings.Join(ls, " | ")
}

func argsOf(ss ...string) [][]byte {
	out := make([][]byte, len(ss))
	for i, s := range ss {
		out[i] = []byte(s)
	}
	return out
}
