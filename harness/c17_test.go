package harness

// C17 — every CLI command runs, and search output matches the engine's answer.
// World P: process histories over one simulated home directory (database given with
// --database or missing/malformed so the fallback ladder runs, optional notebook,
// project marker files in the working directory, NO_COLOR / HOME / XDG_CONFIG_HOME
// varied), each invocation a child process running the real main; the engine's return
// values are tapped inside that process and compared with what it printed.

import (
	"encoding/json"
	"fmt"
	"regexp"
	"strconv"
	"strings"
	"syscall"
	"testing"
	"time"

	"github.com/Vedant9500/WTF/internal/validation"
	"github.com/Vedant9500/WTF/zz_verif/sim/simos"
	"pgregory.net/rapid"
)

type C17Step struct {
	Args    QArgs  `json:"args"`
	Stdin   string `json:"stdin,omitempty"`         // Go-quoted
	Pipe    bool   `json:"stdin_is_pipe,omitempty"` // default: a terminal (one line per read)
	ClockNS int64  `json:"clock_step_ns,omitempty"`
	Fault   string `json:"fault,omitempty"` // "" | history-write | notebook-write
	Errno   int    `json:"errno,omitempty"`
}

type C17Case struct {
	Sched    []uint16          `json:"sched,omitempty"` // schedule vector of every process of the case (goroutines / channels / select inside the tool)
	MainKind string            `json:"main_kind"`       // valid missing malformed dir empty none(-d not passed)
	Main     []Cmd             `json:"main,omitempty"`
	Notebook []Cmd             `json:"notebook,omitempty"`
	Markers  []string          `json:"markers,omitempty"`
	Env      map[string]string `json:"env,omitempty"`
	NoHome   bool              `json:"no_home,omitempty"`
	CwdGone  bool              `json:"cwd_gone,omitempty"` // the working directory was removed before the tool started: os.Getwd fails
	Steps    []C17Step         `json:"steps"`
}

var c17Markers = []string{".git/", "go.mod", "package.json", "Dockerfile", "requirements.txt", "Cargo.toml", "docker-compose.yml",
	"k8s-deploy.yaml", "kustomization.yaml", "main.tf", "playbook.yml", "Makefile", "pom.xml", "Gemfile", "composer.json", "CMakeLists.txt",
	"webpack.config.js", "vite.config.ts", "app.csproj", "build.gradle"}

// words that project types boost (several of them are boosted by more than one type)
var contextWords = []string{"container", "image", "build", "run", "compose", "test", "make", "compile", "bundle", "service", "deploy", "install", "package", "docker", "git", "commit", "push", "pull"}

func genC17Query(rt *rapid.T) []string {
	switch rapid.IntRange(0, 9).Draw(rt, "qshape") {
	case 0:
		return []string{rapid.SampledFrom([]string{"", " ", "a|b", "x; rm", "<tag>", "$HOME", strings.Repeat("q", 600), "tab\tquery", "ctl\x01x", "日本語", "--", "-x", "find & replace"}).Draw(rt, "qodd")}
	case 1:
		return []string{"comprss", "fles"}
	case 2:
		return []string{"zzzzqq", "xkcdw"} // matches nothing: recovery search and suggestions run
	case 3:
		return []string{misspell(genWord(rt, "qw"), 0)}
	default:
		return strings.Fields(genQuery(rt, 4))
	}
}

func genC17Step(rt *rapid.T, c *C17Case) C17Step {
	var st C17Step
	dbArgs := []string{}
	if c.MainKind != "none" {
		dbArgs = []string{"-d", pMainDB}
	}
	common := func() []string {
		var a []string
		if rapid.IntRange(0, 2).Draw(rt, "haslimit") == 0 {
			a = append(a, "--limit", strconv.Itoa(rapid.SampledFrom([]int{-1, 0, 1, 2, 3, 5, 100, 101, 1000000, 2147483648, 4611686018427387904, 9223372036854775807}).Draw(rt, "limit")))
		}
		if rapid.IntRange(0, 1).Draw(rt, "hasformat") == 0 {
			a = append(a, "--format", rapid.SampledFrom([]string{"list", "table", "json", "JSON", "xml"}).Draw(rt, "format"))
		}
		if rapid.Bool().Draw(rt, "verbose") {
			a = append(a, "-v")
		}
		if rapid.IntRange(0, 3).Draw(rt, "nocolor") == 0 {
			a = append(a, "--no-color")
		}
		switch rapid.IntRange(0, 6).Draw(rt, "plat") {
		case 3: // both: "all platforms" wins, whatever else is said about platforms
			a = append(a, "--all-platforms", "--platform", rapid.SampledFrom([]string{"windows", "macos", "bogus", "linux,windows"}).Draw(rt, "platv2"))
			if rapid.Bool().Draw(rt, "platnc") {
				a = append(a, "--no-cross-platform")
			}
		case 0:
			a = append(a, "--all-platforms")
		case 1:
			a = append(a, "--platform", rapid.SampledFrom([]string{"linux", "windows", "macos,linux", "bogus"}).Draw(rt, "platv"))
		case 2:
			a = append(a, "--platform", "linux", "--no-cross-platform")
		}
		return a
	}
	kind := rapid.SampledFrom([]string{"search", "search", "search", "root", "root", "root", "pipeline", "history", "history", "save", "savepipe", "alias", "setup", "wizard", "meta", "bad"}).Draw(rt, "kind")
	var args []string
	switch kind {
	case "search":
		args = append(append(append([]string{"search"}, dbArgs...), common()...), genC17Query(rt)...)
	case "root":
		args = append(append(append([]string{}, dbArgs...), common()...), genC17Query(rt)...)
	case "pipeline":
		args = append(append(append([]string{"pipeline"}, dbArgs...), common()...), genC17Query(rt)...)
	case "history":
		args = []string{"history"}
		switch rapid.IntRange(0, 6).Draw(rt, "hist") {
		case 0:
			args = append(args, "--top")
		case 1:
			args = append(args, "--stats")
		case 2:
			args = append(args, "--clear")
		case 3:
			args = append(args, "-l", strconv.Itoa(rapid.SampledFrom([]int{-1, 0, 1, 3}).Draw(rt, "hl")))
		case 4:
			args = append(args, genWord(rt, "hpat"))
		case 5:
			args = append(args, "--top", "-l", "0")
		}
	case "save":
		args = []string{"save", "--", genText(rt, "scmd"), genText(rt, "sdesc")}
		if rapid.Bool().Draw(rt, "sk") {
			args = append([]string{"save", "-k", genListValue(rt, "skw"), "--platforms", "linux", "--"}, args[2:]...)
		}
	case "savepipe":
		args = []string{"save-pipeline", "--", genText(rt, "pname"), genText(rt, "pcmd")}
	case "alias":
		switch rapid.IntRange(0, 3).Draw(rt, "al") {
		case 0:
			args = []string{"alias", "list"}
		case 1:
			args = []string{"alias", "add", rapid.SampledFrom([]string{"hey", "miko", "a/b", "", "..", "x y"}).Draw(rt, "an")}
		case 2:
			args = []string{"alias", "remove", rapid.SampledFrom([]string{"hey", "miko", "nope"}).Draw(rt, "an")}
		default:
			args = []string{"alias"}
		}
	case "setup":
		args = []string{"setup", rapid.SampledFrom([]string{"hey", "cmd", "it's", ""}).Draw(rt, "sn")}
	case "wizard":
		args = []string{"wizard"}
		if rapid.IntRange(0, 4).Draw(rt, "wz") > 0 {
			args = append(args, rapid.SampledFrom([]string{"tar", "find", "ffmpeg", "other"}).Draw(rt, "wzk"))
		}
		// mostly plausible answers so that the dialogues are walked to their end, with some junk, blanks and early EOF
		var lines []string
		if rapid.IntRange(0, 9).Draw(rt, "stdin-empty") > 0 {
			lines = append(lines, rapid.SampledFrom([]string{"1", "2", "3", "4", "4", "5", "x"}).Draw(rt, "first"))
			lines = append(lines, rapid.SliceOfN(rapid.SampledFrom([]string{"1", "2", "3", "4", "y", "n", "y", "n", "y", "backup.tar", "/tmp/x", "*.go", "src docs", "100", "mp4", "9", "", "", " ", "'", "\"", "-", "*", "abc", "0", "-1", "99999999999999999999"}), 0, 24).Draw(rt, "stdin")...)
		}
		in := strings.Join(lines, "\n")
		if len(lines) > 0 && rapid.Bool().Draw(rt, "nl") {
			in += "\n"
		}
		st.Stdin = strconv.Quote(in)
		st.Pipe = rapid.IntRange(0, 4).Draw(rt, "pipe") == 0
	case "meta":
		args = rapid.SampledFrom([][]string{{"--help"}, {"--version"}, {"help"}, {"help", "search"}, {"search", "--help"}, {"completion", "bash"}, {"history", "--help"}, {"-h"}}).Draw(rt, "meta")
	default:
		args = rapid.SampledFrom([][]string{{}, {"--bogus"}, {"search"}, {"save", "onlyone"}, {"save-pipeline"}, {"alias", "add"}, {"setup"}, {"--limit", "x", "q"}, {"--format"}, {"search", "--limit"}, {"history", "--top", "--stats", "--clear"}, {"-d"}, {"--platform"}}).Draw(rt, "bad")
	}
	st.Args = qa(args...)
	if rapid.IntRange(0, 3).Draw(rt, "clock") == 0 {
		st.ClockNS = rapid.SampledFrom([]int64{int64(time.Second), int64(time.Hour), int64(40 * 24 * time.Hour), -int64(2 * time.Hour)}).Draw(rt, "clockstep")
	}
	if rapid.IntRange(0, 7).Draw(rt, "fault") == 0 {
		st.Fault = rapid.SampledFrom([]string{"history-write", "notebook-write"}).Draw(rt, "faultk")
		st.Errno = int(rapid.SampledFrom([]syscall.Errno{syscall.ENOSPC, syscall.EIO, syscall.EACCES, syscall.EROFS}).Draw(rt, "errno"))
	}
	return st
}

func genC17(rt *rapid.T) C17Case {
	var c C17Case
	c.MainKind = rapid.SampledFrom([]string{"valid", "valid", "valid", "valid", "missing", "malformed", "dir", "empty", "none"}).Draw(rt, "mainkind")
	c.Main = genDB(rt, 14)
	for i := range c.Main {
		switch rapid.IntRange(0, 11).Draw(rt, "wide") {
		case 0:
			c.Main[i].Command += " " + rapid.SampledFrom(wideTexts).Draw(rt, "widecmd")
		case 1:
			c.Main[i].Niche = rapid.SampledFrom(wideTexts).Draw(rt, "wideniche")
		case 2:
			c.Main[i].Description = rapid.SampledFrom(wideTexts).Draw(rt, "widedesc") + " " + c.Main[i].Description
		case 3:
			c.Main[i].Command += " " + rapid.SampledFrom(escapeLookalikes).Draw(rt, "esccmd")
		case 4:
			c.Main[i].Description += " " + rapid.SampledFrom(escapeLookalikes).Draw(rt, "escdesc")
		}
	}
	if rapid.Bool().Draw(rt, "hasnb") {
		c.Notebook = genDB(rt, 4)
	}
	c.Markers = rapid.SliceOfNDistinct(rapid.SampledFrom(c17Markers), 0, 4, rapid.ID[string]).Draw(rt, "markers")
	if rapid.IntRange(0, 7).Draw(rt, "cwdgone") == 0 {
		c.CwdGone = true
		c.Markers = nil
	}
	c.Env = map[string]string{}
	switch rapid.IntRange(0, 3).Draw(rt, "nocolorenv") {
	case 0:
		c.Env["NO_COLOR"] = "1"
	case 1:
		c.Env["NO_COLOR"] = ""
	}
	switch rapid.IntRange(0, 3).Draw(rt, "xdg") {
	case 0:
		c.Env["XDG_CONFIG_HOME"] = "/home/u/xdg"
	case 1:
		c.Env["XDG_CONFIG_HOME"] = "relative/dir"
	}
	c.NoHome = rapid.IntRange(0, 9).Draw(rt, "nohome") == 0
	c.Steps = rapid.SliceOfN(rapid.Custom(func(rt *rapid.T) C17Step { return genC17Step(rt, &c) }), 1, tierN(8, 20)).Draw(rt, "steps")
	// some searches are repeated right away (same arguments, possibly another limit, later on the clock): the
	// history must then describe the later of the two
	reps := rapid.SliceOfN(rapid.IntRange(0, 3), len(c.Steps), len(c.Steps)).Draw(rt, "repeats")
	var steps []C17Step
	for i, st := range c.Steps {
		steps = append(steps, st)
		if reps[i] == 0 && len(st.Args) > 0 && st.Fault == "" {
			again := st
			again.ClockNS = int64(90 * time.Minute)
			if i%2 == 0 {
				again.Args = append(qa("--limit", "2"), st.Args...)
				if a := st.Args.bytes(); len(a) > 0 && string(a[0]) == "search" {
					again.Args = append(append(QArgs{st.Args[0]}, qa("--limit", "2")...), st.Args[1:]...)
				}
			}
			steps = append(steps, again)
		}
	}
	c.Steps = steps
	if rapid.IntRange(0, 2).Draw(rt, "hassched") == 0 {
		c.Sched = genSchedule(rt, 40)
	}
	return c
}

var ansiRe = regexp.MustCompile("\x1b\\[[0-9;]*[A-Za-z]")

type printedItem struct{ cmd, desc string }

// parsePrinted extracts the result list from stdout for the given format.
func parsePrinted(stdout []byte, format string) ([]printedItem, string) {
	switch strings.ToLower(format) {
	case "json":
		items, err := jsonBlock(stdout)
		if err != "" {
			return nil, err
		}
		var out []printedItem
		for _, it := range items {
			out = append(out, printedItem{it.Command, it.Description})
		}
		return out, ""
	case "table":
		lines := strings.Split(ansiRe.ReplaceAllString(string(stdout), ""), "\n")
		var out []printedItem
		in := false
		for _, l := range lines {
			if strings.HasPrefix(l, strings.Repeat("-", 90)) {
				in = true
				continue
			}
			if !in {
				continue
			}
			if len(l) < 4 || l[0] < '0' || l[0] > '9' {
				break
			}
			rest := l[4:]
			if len(rest) > 48 {
				rest = rest[:48]
			}
			out = append(out, printedItem{cmd: strings.TrimRight(rest, " ")})
		}
		return out, ""
	default:
		lines := strings.Split(ansiRe.ReplaceAllString(string(stdout), ""), "\n")
		var out []printedItem
		numRe := regexp.MustCompile(`^(\d+)\. (.*)$`)
		in := false
		for i := 0; i < len(lines); i++ {
			if strings.HasPrefix(lines[i], "Found ") && strings.Contains(lines[i], "matching command(s):") {
				in = true
				continue
			}
			if !in {
				continue
			}
			if m := numRe.FindStringSubmatch(lines[i]); m != nil && i+1 < len(lines) && strings.HasPrefix(lines[i+1], "   Description: ") {
				out = append(out, printedItem{cmd: m[2], desc: strings.TrimPrefix(lines[i+1], "   Description: ")})
			}
		}
		return out, ""
	}
}

// flagValue returns the value of the LAST occurrence of the flag (that is the one pflag keeps).
func flagValue(args []string, name string) (string, bool) {
	val, found := "", false
	for i, a := range args {
		if a == "--" {
			break
		}
		if a == name && i+1 < len(args) {
			val, found = args[i+1], true
		}
		if strings.HasPrefix(a, name+"=") {
			val, found = strings.TrimPrefix(a, name+"="), true
		}
	}
	return val, found
}

func hasFlag(args []string, name string) bool {
	for _, a := range args {
		if a == "--" {
			break
		}
		if a == name {
			return true
		}
	}
	return false
}

type histDoc struct {
	Entries []struct {
		Query        string    `json:"query"`
		ResultsCount int       `json:"results_count"`
		Timestamp    time.Time `json:"timestamp"`
	} `json:"entries"`
}

func runC17(c C17Case) *Outcome {
	o := &Outcome{Probes: map[string]int{}, Faults: map[string]int{}}
	w := newPWorld()
	w.sched = c.Sched
	switch c.MainKind {
	case "valid", "none":
		w.disk.WriteRaw(pMainDB, yamlOf(c.Main), 0o644)
	case "malformed":
		w.disk.WriteRaw(pMainDB, []byte("- command: \"x\n  description: [oops"), 0o644)
	case "dir":
		w.disk.MkdirAllRaw(pMainDB, 0o755)
	case "empty":
		w.disk.WriteRaw(pMainDB, nil, 0o644)
	}
	if len(c.Notebook) > 0 {
		w.disk.WriteRaw(pNotebook, yamlOf(c.Notebook), 0o644)
	}
	for _, m := range c.Markers {
		if strings.HasSuffix(m, "/") {
			w.disk.MkdirAllRaw("/home/u/work/"+strings.TrimSuffix(m, "/"), 0o755)
		} else {
			w.disk.WriteRaw("/home/u/work/"+m, []byte("x\n"), 0o644)
		}
	}
	if c.CwdGone {
		w.disk.Cwd = "/home/u/removed-meanwhile"
	}
	for k, v := range c.Env {
		w.disk.Env[k] = v
	}
	if c.NoHome {
		delete(w.disk.Env, "HOME")
	}
	_, noColorEnv := c.Env["NO_COLOR"]
	// where the history lives: $XDG_CONFIG_HOME/wtf if that is set and absolute, $HOME/.config/wtf if
	// it is unset, $HOME/.wtf if the config directory cannot be determined (documented fallback)
	histPath := "/home/u/.config/wtf/search_history.json"
	histKnown := !c.NoHome
	if x, ok := c.Env["XDG_CONFIG_HOME"]; ok && x != "" {
		if strings.HasPrefix(x, "/") {
			histPath = x + "/wtf/search_history.json"
			histKnown = true
		} else {
			histPath = "/home/u/.wtf/search_history.json"
		}
	}
	var log []string
	var digs []string // per-step digests of everything observable (determinism self-test)
	fail := func(sig, f string, a ...any) *Outcome {
		o.Violation = fmt.Sprintf(f, a...) + fmt.Sprintf("\n  main database: %s; env %v; markers %v\n  steps:\n    %s", c.MainKind, c.Env, c.Markers, strings.Join(log, "\n    "))
		o.Sig = "C17/" + sig
		o.Digest = digestOf(log)
		return o
	}
	var beh []string
	escInData := false
	searches, fuzzyPath, recoveryPath, emptyRes := 0, 0, 0, 0
	for i, st := range c.Steps {
		args := st.Args.bytes()
		var sargs []string
		for _, a := range args {
			sargs = append(sargs, string(a))
		}
		if strings.Contains(strings.Join(sargs, " "), "\x1b") {
			escInData = true // the user stored an escape byte himself: an escape in later output may be his, not the tool's
		}
		w.clockNS += st.ClockNS
		w.disk.Stdin = []byte(unq(st.Stdin))
		w.disk.StdinTTY = !st.Pipe
		var faults []simos.Fault
		switch st.Fault {
		case "history-write":
			faults = []simos.Fault{{Kind: simos.Transient, At: -1, Op: "write", Path: "search_history", Count: 1 << 20, Errno: st.Errno}}
		case "notebook-write":
			faults = []simos.Fault{{Kind: simos.Transient, At: -1, Op: "write", Path: "personal.yml", Count: 1 << 20, Errno: st.Errno}}
		}
		var before histDoc
		hb, hadHist := w.disk.ReadRaw(histPath)
		if hadHist {
			_ = json.Unmarshal(hb, &before)
		}
		clockAtStart := w.clockNS
		res, err := w.run(args, faults, nil, "s")
		if err != nil {
			o.Harness = err.Error()
			return o
		}
		for k, v := range res.Fired {
			o.Faults[k] += v
		}
		log = append(log, fmt.Sprintf("%s -> %s", quoteArgs(args), exitDesc(res)))
		digs = append(digs, stepDigest(res))
		// (1) every command runs
		if res.Exit != "exit" {
			cmdName := "root"
			if len(sargs) > 0 && !strings.HasPrefix(sargs[0], "-") {
				cmdName = sargs[0]
			}
			return fail("crash:"+cmdName, "step %d crashed: %s\n  stdout: %q", i, exitDesc(res), tailStr(string(res.Stdout), 400))
		}
		if res.Code != 0 && res.Code != 1 {
			return fail("exit-code", "step %d exited with status %d", i, res.Code)
		}
		// search invocations that reached the engine
		var engine *NodeTap
		for k := range res.Taps {
			if res.Taps[k].Name == "SearchUniversal" {
				engine = &res.Taps[k]
			}
		}
		isSearch := len(sargs) > 0 && sargs[0] != "pipeline" && sargs[0] != "history" && sargs[0] != "save" && sargs[0] != "save-pipeline" && engine != nil
		if !isSearch {
			beh = append(beh, "o")
			continue
		}
		searches++
		want := engine.Results
		if len(want) == 0 {
			for k := range res.Taps {
				if res.Taps[k].Name == "RecoverFromSearchFailure" && len(res.Taps[k].Results) > 0 {
					want = res.Taps[k].Results
					recoveryPath++
				}
			}
		}
		format, _ := flagValue(sargs, "--format")
		if format == "" {
			format = "list"
		}
		limitStr, hasLimit := flagValue(sargs, "--limit")
		limit := 5
		if hasLimit {
			if n, e := strconv.Atoi(limitStr); e == nil && n > 0 {
				limit = n
			}
		}
		// the recovery search returns every match; what may be printed of it is its first `limit` entries
		fromRecovery := len(engine.Results) == 0 && len(want) > 0
		out := res.Stdout
		// (5) no escape sequences when colour is off
		if (hasFlag(sargs, "--no-color") || noColorEnv) && !escInData && strings.Contains(string(out), "\x1b[") {
			return fail("color", "step %d: colour is switched off but the output contains an escape sequence: %q", i, tailStr(string(out), 300))
		}
		if len(want) == 0 {
			emptyRes++
			if !strings.Contains(string(out), "No commands found") {
				return fail("empty-result-output", "step %d: the engine returned nothing but the output does not say so: %q", i, tailStr(string(out), 300))
			}
		} else {
			// the list and table formats are line-oriented: entries whose text contains line breaks cannot be
			// told apart by a parser (nor by a reader); those cases are compared in the JSON format only
			multiline := false
			for _, r := range want {
				if strings.ContainsAny(r.Command+strings.SplitN(r.Desc, "\x00", 2)[0], "\n\r") {
					multiline = true
				}
			}
			if multiline && strings.ToLower(format) != "json" {
				o.Probes["c17.skipped_multiline_text"]++
				beh = append(beh, "m")
				continue
			}
			printed, perr := parsePrinted(out, format)
			if perr != "" {
				return fail("json", "step %d: %s\n  stdout: %q", i, perr, tailStr(string(out), 500))
			}
			// (3) never more than the limit in force
			if len(printed) > limit {
				path := "bm25"
				if len(engine.Results) == 0 {
					path = "recovery"
				} else if len(engine.Results) > engine.Limit && engine.Limit > 0 {
					path = "engine-over-limit"
				}
				return fail("over-limit:"+path, "step %d: %d results printed, the limit in force is %d", i, len(printed), limit)
			}
			if fromRecovery && len(want) > limit {
				want = want[:limit]
			}
			// (2b) "all platforms" means no platform filter: further platform flags on the same command line change
			// nothing (the flags reach the engine through the command's own translation, which the tap cannot judge)
			if hasFlag(sargs, "--all-platforms") && (hasFlag(sargs, "--platform") || hasFlag(sargs, "--no-cross-platform")) && st.Fault == "" {
				var plain []string
				for k := 0; k < len(sargs); k++ {
					switch sargs[k] {
					case "--platform":
						k++
						continue
					case "--no-cross-platform":
						continue
					}
					plain = append(plain, sargs[k])
				}
				ref, perr2 := w.probe(argsOf(plain...), nil, "s")
				if perr2 != nil {
					o.Harness = perr2.Error()
					return o
				}
				if ref.Exit == "exit" {
					refPrinted, rerr := parsePrinted(ref.Stdout, format)
					if rerr == "" && len(refPrinted) != len(printed) {
						return fail("all-platforms-narrowed", "step %d: with --all-platforms AND a platform list %d results are printed, with --all-platforms alone %d: the list narrowed what \"all platforms\" asked for", i, len(printed), len(refPrinted))
					}
					o.Probes["c17.all_platforms_with_list_checked"]++
				}
			}
			// (2) exactly the engine's results in rank order
			if len(printed) != len(want) {
				return fail("result-count", "step %d: %d results printed, the engine returned %d", i, len(printed), len(want))
			}
			for k := range want {
				// tap results travel from the node as JSON, which replaces invalid UTF-8 by U+FFFD (so does the
				// JSON printer): compare in that form
				fix := func(x string) string { return strings.ToValidUTF8(x, "\uFFFD") }
				wc := fix(want[k].Command)
				wd := fix(strings.SplitN(want[k].Desc, "\x00", 2)[0])
				printed[k].cmd, printed[k].desc = fix(printed[k].cmd), fix(printed[k].desc)
				if strings.ToLower(format) != "json" {
					// the list/table parser strips the tool's colour codes; strip look-alikes in the data too
					wc, wd = ansiRe.ReplaceAllString(wc, ""), ansiRe.ReplaceAllString(wd, "")
				}
				switch strings.ToLower(format) {
				case "table":
					if len(wc) > 48 {
						wc = wc[:45] + "..."
					}
					// the table cuts by bytes and may split a multi-byte character: compare in U+FFFD-normalised form
					wc = fix(wc)
					if strings.TrimRight(wc, " ") != printed[k].cmd {
						return fail("result-order", "step %d: table row %d shows %q, the engine's result %d is %q", i, k+1, printed[k].cmd, k+1, wc)
					}
				default:
					if printed[k].cmd != wc || printed[k].desc != wd {
						return fail("result-order", "step %d: printed result %d is %q / %q, the engine's result %d is %q / %q", i, k+1, printed[k].cmd, printed[k].desc, k+1, wc, wd)
					}
				}
			}
		}
		if len(engine.Results) > 0 && engine.Results[0].Bits != 0 && strings.Contains(string(out), "Found") {
			_ = fuzzyPath
		}
		// (6) exactly one corresponding newest entry in the history
		if st.Fault == "" && histKnown {
			q, verr := validation.ValidateQuery(strings.Join(positionalArgs(sargs), " "))
			if verr == nil {
				hb, ok := w.disk.ReadRaw(histPath)
				if !ok {
					return fail("history-missing", "step %d: the search left no history file at %s", i, histPath)
				}
				var after histDoc
				if e := json.Unmarshal(hb, &after); e != nil {
					return fail("history-corrupt", "step %d: the history file does not parse after the search: %v", i, e)
				}
				if len(after.Entries) == 0 {
					return fail("history-entry", "step %d: the history is empty after a search", i)
				}
				last := after.Entries[len(after.Entries)-1]
				if ts := last.Timestamp.UnixNano(); ts < clockAtStart || ts > w.clockNS {
					return fail("history-entry-stale", "step %d: the newest history entry is dated %s, but this search ran at %s: the entry does not describe this search", i, last.Timestamp.UTC().Format(time.RFC3339), time.Unix(0, clockAtStart).UTC().Format(time.RFC3339))
				}
				if last.Query != q || last.ResultsCount != len(want) {
					return fail("history-entry", "step %d: newest history entry is %q with %d results; the search was %q and printed %d", i, last.Query, last.ResultsCount, q, len(want))
				}
				wantLen := len(before.Entries) + 1
				if len(before.Entries) > 0 && before.Entries[len(before.Entries)-1].Query == q {
					wantLen = len(before.Entries)
				}
				if wantLen > 100 {
					wantLen = 100
				}
				if len(after.Entries) != wantLen {
					return fail("history-entry", "step %d: the history went from %d to %d entries for one search (expected %d)", i, len(before.Entries), len(after.Entries), wantLen)
				}
			}
		}
		beh = append(beh, "S"+strings.ToLower(format)[:1])
	}
	o.Probes["c17.searches_checked"] = searches
	o.Probes["c17.recovery_search_used"] = recoveryPath
	o.Probes["c17.empty_result"] = emptyRes
	o.Evals = w.steps
	o.NonTrivial = searches > 0
	o.Behaviour = c.MainKind + " " + strings.Join(beh, "")
	o.Digest = digestOf([]any{log, digs})
	return o
}

// positionalArgs returns the non-flag arguments of a search invocation (the query words).
func positionalArgs(args []string) []string {
	valueFlags := map[string]bool{"-d": true, "--database": true, "-l": true, "--limit": true, "-p": true, "--platform": true, "--format": true}
	var out []string
	skip := false
	dd := false
	for _, a := range args {
		if skip {
			skip = false
			continue
		}
		if dd {
			out = append(out, a)
			continue
		}
		if a == "--" {
			dd = true
			continue
		}
		if strings.HasPrefix(a, "-") && a != "-" {
			if valueFlags[a] {
				skip = true
			}
			continue
		}
		out = append(out, a)
	}
	// cobra takes the first positional argument as the sub-command name when it is one
	if len(out) > 0 && out[0] == "search" && !dd {
		out = out[1:]
	}
	return out
}

func tailStr(s string, n int) string {
	if len(s) > n {
		return "..." + s[len(s)-n:]
	}
	return s
}

func TestC17(t *testing.T) { runProperty(t, "C17", genC17, runC17) }
