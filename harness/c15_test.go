package harness

// C15 — loading always ends with a usable database, without futile retries.
// World L with the simulated disk (fault plans on the reads of the main, personal and
// backup files; permission bits honoured for a simulated non-root user) and the
// simulated clock (every back-off sleep is recorded and advances simulated time).
// The full product of file states runs under the default retry configuration
// (enumeration); rapid then samples file states x fault overlays x retry configurations.

import (
	"path/filepath"
	"fmt"
	"io/fs"
	"strings"
	"syscall"
	"testing"
	"time"

	"github.com/Vedant9500/WTF/internal/database"
	"github.com/Vedant9500/WTF/internal/recovery"
	"github.com/Vedant9500/WTF/zz_verif/sim/simos"
	"github.com/Vedant9500/WTF/zz_verif/sim/simrand"
	"github.com/Vedant9500/WTF/zz_verif/sim/simrt"
	"github.com/Vedant9500/WTF/zz_verif/sim/simtime"
	"gopkg.in/yaml.v3"
	"pgregory.net/rapid"
)

// FileState describes one of the three files on the simulated disk.
type FileState struct {
	Kind string `json:"kind"` // valid missing dir perm empty malformed notlist truncated bitflip
	Cmds []Cmd  `json:"cmds,omitempty"`
	Cut  int    `json:"cut,omitempty"`  // truncated: bytes kept (mod length)
	Flip int    `json:"flip,omitempty"` // bitflip: bit index (mod 8*length)
	// fault overlay on the reads of this file
	Fault   string `json:"fault,omitempty"` // "" always transient failat
	N       int    `json:"n,omitempty"`     // transient: first N opens fail; failat: the Nth (0-based) open fails
	Errno   int    `json:"errno,omitempty"`
	OnRead  bool   `json:"on_read,omitempty"` // inject on the read instead of the open
	content []byte
}

type RetryCfg struct {
	Attempts int     `json:"attempts"`
	BaseNS   int64   `json:"base_ns"`
	CapNS    int64   `json:"cap_ns"`
	Factor   float64 `json:"factor"`
}

type C15Case struct {
	// Sched: schedule vector for goroutines / channels / select choices of the code under test (single-task case body = first task)
	Sched    []uint16  `json:"sched,omitempty"`
	Main     FileState `json:"main"`
	Personal FileState `json:"personal"`
	Backup   FileState `json:"backup"`
	Cfg      RetryCfg  `json:"cfg"`
	Enum     bool      `json:"enumerated,omitempty"`
	// CLI: the same file states under `wtf search` as a child process (world P, default retry
	// configuration): attempts from the I/O trace, waits from the recorded sleeps, the database
	// from the verbose header and the engine tap.
	CLI bool `json:"cli,omitempty"`
	// Rand seeds the stand-in for the package-level math/rand generator (the runtime seeds it at random in every
	// process): whatever the loader draws (jitter, ...) is part of the schedule the search explores
	Rand int64 `json:"rand_seed,omitempty"`
	// Again: number of further loads through the same DatabaseRecovery object
	Again int `json:"further_loads_same_object,omitempty"`
	// NoNotebook: the caller passes "" as the notebook path (no notebook configured): the same as a notebook that is
	// merely absent. Spelling: the paths are passed with redundant elements ("//", "/./", "x/..").
	NoNotebook bool `json:"no_notebook_path,omitempty"`
	Spelling   int  `json:"path_spelling,omitempty"`
	// IOLat: simulated duration of the I/O events, cycled (a slow or uneven disk): attempts then take time, and not
	// the same time each
	IOLat []int64 `json:"io_latency_ns,omitempty"`
}

var c15Kinds = []string{"valid", "missing", "dir", "perm", "empty", "malformed", "notlist", "truncated", "bitflip", "symlink", "dangling"}
var c15Overlays = []string{"", "always", "transient1", "transient2"}

func defaultCfg() RetryCfg {
	d := recovery.DefaultRetryConfig()
	return RetryCfg{Attempts: d.MaxAttempts, BaseNS: int64(d.BaseDelay), CapNS: int64(d.MaxDelay), Factor: d.BackoffFactor}
}

func fixedCmds(tag string, n int) []Cmd {
	var out []Cmd
	for i := 0; i < n; i++ {
		out = append(out, Cmd{Command: fmt.Sprintf("%s%d --flag", tag, i), Description: fmt.Sprintf("%s entry number %d: list files", tag, i), Keywords: []string{tag, "files"}, Platform: []string{"linux"}})
	}
	return out
}

// the enumerated product: 14 main states x 14 personal states x 3 backup states
func c15Enumeration() []C15Case {
	states := func(tag string) []FileState {
		var out []FileState
		for _, k := range c15Kinds {
			out = append(out, FileState{Kind: k, Cmds: fixedCmds(tag, 3), Cut: 37, Flip: 75})
		}
		out = append(out,
			FileState{Kind: "valid", Cmds: fixedCmds(tag, 3), Fault: "always", Errno: int(syscall.EIO)},
			FileState{Kind: "valid", Cmds: fixedCmds(tag, 3), Fault: "transient", N: 1, Errno: int(syscall.EIO)},
			FileState{Kind: "valid", Cmds: fixedCmds(tag, 3), Fault: "transient", N: 2, Errno: int(syscall.EIO), OnRead: true})
		return out
	}
	var out []C15Case
	for _, m := range states("maincmd") {
		for _, p := range states("notecmd") {
			for _, b := range []FileState{{Kind: "missing"}, {Kind: "valid", Cmds: fixedCmds("backupcmd", 2)}, {Kind: "malformed"}} {
				out = append(out, C15Case{Main: m, Personal: p, Backup: b, Cfg: defaultCfg(), Enum: true})
			}
		}
	}
	return out
}

func genFileState(rt *rapid.T, label string) FileState {
	var f FileState
	f.Kind = rapid.SampledFrom(append([]string{"valid", "valid", "valid", "missing"}, c15Kinds...)).Draw(rt, label+"-kind")
	if f.Kind == "valid" || f.Kind == "truncated" || f.Kind == "bitflip" || f.Kind == "perm" || f.Kind == "symlink" {
		f.Cmds = genDB(rt, 6)
	}
	f.Cut = rapid.IntRange(0, 400).Draw(rt, label+"-cut")
	f.Flip = rapid.IntRange(0, 4000).Draw(rt, label+"-flip")
	switch rapid.IntRange(0, 5).Draw(rt, label+"-fault") {
	case 0:
		f.Fault = "always"
	case 1:
		f.Fault = "transient"
		f.N = rapid.IntRange(1, 4).Draw(rt, label+"-n")
	case 2:
		f.Fault = "failat"
		f.N = rapid.IntRange(0, 3).Draw(rt, label+"-n")
	}
	if f.Fault != "" {
		f.Errno = int(rapid.SampledFrom([]syscall.Errno{syscall.EIO, syscall.EIO, syscall.EMFILE, syscall.ENOENT, syscall.EACCES, syscall.ENOSPC}).Draw(rt, label+"-errno"))
		f.OnRead = rapid.Bool().Draw(rt, label+"-onread")
	}
	return f
}

func genC15(rt *rapid.T) C15Case {
	var c C15Case
	c.Main = genFileState(rt, "main")
	c.Personal = genFileState(rt, "personal")
	c.Backup = genFileState(rt, "backup")
	c.Cfg.Attempts = rapid.SampledFrom([]int{-1, 0, 1, 2, 3, 3, 4, 5, 8, 13, 40}).Draw(rt, "attempts")
	c.Cfg.BaseNS = rapid.SampledFrom([]int64{0, int64(time.Millisecond), int64(100 * time.Millisecond)}).Draw(rt, "base")
	c.Cfg.Factor = rapid.SampledFrom([]float64{1, 1.5, 2, 2, 10, 1000, 1e6, 1e30}).Draw(rt, "factor")
	c.Cfg.CapNS = rapid.SampledFrom([]int64{0, int64(50 * time.Millisecond), int64(5 * time.Second), c.Cfg.BaseNS / 2, int64(1000 * time.Hour)}).Draw(rt, "cap")
	if rapid.IntRange(0, 59).Draw(rt, "cli") == 30 {
		c.CLI = true
		c.Cfg = defaultCfg()
	}
	c.Rand = rapid.Int64Range(1, 1<<20).Draw(rt, "randseed")
	c.Again = rapid.SampledFrom([]int{0, 0, 0, 1, 2, 4}).Draw(rt, "again")
	c.NoNotebook = rapid.IntRange(0, 7).Draw(rt, "nonotebook") == 0
	c.Spelling = rapid.SampledFrom([]int{0, 0, 0, 1, 2, 3}).Draw(rt, "spelling")
	if rapid.IntRange(0, 3).Draw(rt, "slowdisk") == 0 {
		c.IOLat = rapid.SliceOfN(rapid.SampledFrom([]int64{0, 0, int64(time.Millisecond), int64(40 * time.Millisecond), int64(700 * time.Millisecond), int64(3 * time.Second)}), 1, 7).Draw(rt, "iolat")
	}
	if rapid.IntRange(0, 3).Draw(rt, "hassched") == 0 {
		c.Sched = genSchedule(rt, 40)
	}
	return c
}

func (f *FileState) bytes() []byte {
	switch f.Kind {
	case "valid", "perm", "symlink":
		return yamlOf(f.Cmds)
	case "empty":
		return []byte{}
	case "malformed":
		return []byte("- command: \"unterminated\n  description: [oops\n\t- bad indent: {")
	case "notlist":
		return []byte("command: not a list\ndescription: a mapping at top level\n")
	case "truncated":
		b := yamlOf(f.Cmds)
		if len(b) == 0 {
			return b
		}
		return b[:f.Cut%len(b)]
	case "bitflip":
		b := append([]byte(nil), yamlOf(f.Cmds)...)
		if len(b) == 0 {
			return b
		}
		i := f.Flip % (8 * len(b))
		b[i/8] ^= 1 << uint(i%8)
		return b
	}
	return nil
}

// place puts the file on the disk and returns the fault plan entries for it.
func (f *FileState) place(d *simos.Disk, path string) []simos.Fault {
	switch f.Kind {
	case "missing":
	case "symlink":
		// the path is a symbolic link to a good file next to it (relative link text) or elsewhere (absolute)
		if f.Cut%2 == 0 {
			d.WriteRaw(path+".real", f.bytes(), 0o644)
			d.SymlinkRaw(path, filepath.Base(path)+".real")
		} else {
			d.WriteRaw("/srv/dotfiles/"+filepath.Base(path), f.bytes(), 0o644)
			d.SymlinkRaw(path, "/srv/dotfiles/"+filepath.Base(path))
		}
	case "dangling":
		d.SymlinkRaw(path, "/nowhere/at/all.yml")
	case "dir":
		d.MkdirAllRaw(path, 0o755)
	case "perm":
		d.WriteRaw(path, f.bytes(), 0o000)
	default:
		d.WriteRaw(path, f.bytes(), 0o644)
	}
	// faults on reading are tied to the open they follow (per_open): "the reads of the k-th opening fail", however many
	// read calls the loader needs per file
	op, perOpen := "open-r", false
	if f.OnRead {
		op, perOpen = "read", true
	}
	switch f.Fault {
	case "always":
		return []simos.Fault{{Kind: simos.Transient, At: -1, Op: op, Path: path, Count: 1 << 30, Errno: f.Errno, PerOpen: perOpen}}
	case "transient":
		return []simos.Fault{{Kind: simos.Transient, At: -1, Op: op, Path: path, Count: f.N, Errno: f.Errno, PerOpen: perOpen}}
	case "failat":
		return []simos.Fault{{Kind: simos.Fail, At: -1, Op: op, Path: path, Nth: f.N, Errno: f.Errno, PerOpen: perOpen}}
	}
	return nil
}

// outcomeAt is the reference: what reading this file yields at its k-th (0-based) read attempt.
// class: "ok" (entries), "enoent", "eacces", "fail".
func (f *FileState) outcomeAt(k int) (class string, cmds []database.Command) {
	natural := func() (string, []database.Command) {
		switch f.Kind {
		case "missing", "dangling":
			return "enoent", nil
		case "dir":
			return "fail", nil
		case "perm":
			return "eacces", nil
		}
		var cs []database.Command
		if err := yaml.Unmarshal(f.bytes(), &cs); err != nil {
			return "fail", nil
		}
		return "ok", cs
	}
	// a natural open failure precedes an injected read failure; an injected open failure precedes everything
	nat, cs := natural()
	faulted := false
	switch f.Fault {
	case "always":
		faulted = true
	case "transient":
		faulted = k < f.N
	case "failat":
		faulted = k == f.N
	}
	if faulted && f.OnRead && (nat == "enoent" || nat == "eacces") {
		return nat, nil // the open fails naturally before any read happens
	}
	if faulted && f.OnRead && f.Kind == "dir" {
		return "fail", nil
	}
	if faulted {
		switch syscall.Errno(f.Errno) {
		case syscall.ENOENT:
			return "enoent", nil
		case syscall.EACCES:
			return "eacces", nil
		}
		return "fail", nil
	}
	return nat, cs
}

func sameEntries(got []database.Command, want []database.Command) string {
	if len(got) != len(want) {
		return fmt.Sprintf("%d entries, expected %d", len(got), len(want))
	}
	for i := range got {
		g, w := got[i], want[i]
		if g.Command != w.Command || g.Description != w.Description || strings.Join(g.Keywords, "\x00") != strings.Join(w.Keywords, "\x00") ||
			strings.Join(g.Tags, "\x00") != strings.Join(w.Tags, "\x00") || g.Niche != w.Niche || strings.Join(g.Platform, "\x00") != strings.Join(w.Platform, "\x00") || g.Pipeline != w.Pipeline {
			return fmt.Sprintf("entry %d is %+v, expected %+v", i, Cmd{g.Command, g.Description, g.Keywords, g.Tags, g.Niche, g.Platform, g.Pipeline}, Cmd{w.Command, w.Description, w.Keywords, w.Tags, w.Niche, w.Platform, w.Pipeline})
		}
	}
	return ""
}

const (
	c15Main     = "/data/commands.yml"
	c15Personal = "/home/u/.config/cmd-finder/personal.yml"
)

// runC15CLI drives the loader through the real command line.
func runC15CLI(c C15Case, o *Outcome) *Outcome {
	w := newPWorld()
	var plan []simos.Fault
	plan = append(plan, c.Main.place(w.disk, pMainDB)...)
	plan = append(plan, c.Personal.place(w.disk, pNotebook)...)
	plan = append(plan, c.Backup.place(w.disk, pMainDB+".backup")...)
	desc := fmt.Sprintf("CLI main=%s/%s%d personal=%s/%s%d backup=%s", c.Main.Kind, c.Main.Fault, c.Main.N, c.Personal.Kind, c.Personal.Fault, c.Personal.N, c.Backup.Kind)
	res, err := w.run(argsOf("search", "-v", "--all-platforms", "-d", pMainDB, "list", "files"), plan, nil, "c15")
	if err != nil {
		o.Harness = err.Error()
		return o
	}
	o.Evals = 1
	fail := func(sig, f string, a ...any) *Outcome {
		o.Violation = fmt.Sprintf(f, a...) + "\n  " + desc + "\n  I/O trace: " + traceString(res.Trace) + fmt.Sprintf("\n  sleeps: %v\n  stdout: %q", res.Sleeps, tailStr(string(res.Stdout), 400))
		o.Sig = "C15/cli-" + sig
		return o
	}
	o.Digest = digestOf([]any{stepDigest(res)})
	if res.Exit != "exit" {
		return fail("crash", "wtf search crashed: %s", exitDesc(res))
	}
	// the config path resolution stats the file first; attempts = opens of the main file
	attempts := 0
	for _, ev := range res.Trace {
		if ev.Op == "open-r" && ev.Path == pMainDB {
			attempts++
		}
	}
	mainK, persK, made := 0, 0, 0
	success := false
	nReal := 0
	stop := ""
	for made < attempts {
		made++
		mc, mcmds := c.Main.outcomeAt(mainK)
		mainK++
		cause := ""
		if mc == "ok" {
			pc, pcmds := c.Personal.outcomeAt(persK)
			persK++
			switch pc {
			case "ok":
				success, nReal = true, len(mcmds)+len(pcmds)
			case "enoent":
				success, nReal = true, len(mcmds)
			default:
				cause = "personal:" + pc
			}
		} else {
			cause = "main:" + mc
		}
		if success {
			break
		}
		stop = cause
		if cause == "main:enoent" || cause == "main:eacces" || cause == "personal:eacces" {
			break
		}
	}
	if attempts == 0 {
		return fail("no-attempt", "the database file was never opened")
	}
	if made < attempts {
		return fail("futile-retry", "%s at attempt %d should have ended the loading, but the main file was opened %d times", stop, made, attempts)
	}
	if attempts > 3 {
		return fail("too-many-attempts", "the main file was opened %d times; the default configuration allows 3", attempts)
	}
	for i, d := range res.Sleeps {
		if d < 0 || time.Duration(d) > 5*time.Second || (i > 0 && d < res.Sleeps[i-1]) {
			return fail("waits", "waits %v are not non-decreasing within [0, 5s]", res.Sleeps)
		}
	}
	if len(res.Sleeps) > attempts-1 {
		return fail("futile-wait", "%d waits for %d attempt(s)", len(res.Sleeps), attempts)
	}
	out := string(res.Stdout)
	var loaded int
	found := false
	for _, l := range strings.Split(out, "\n") {
		if n, e := fmt.Sscanf(l, "Loaded %d commands from database", &loaded); e == nil && n == 1 {
			found = true
		}
	}
	if !found {
		return fail("no-database", "the search did not report a loaded database")
	}
	if success && loaded != nReal {
		return fail("wrong-database", "the files load with %d entries (main then notebook) but the search ran over %d", nReal, loaded)
	}
	if !success && loaded == 0 {
		return fail("empty-fallback", "nothing could be loaded and the search ran over an empty database")
	}
	engine := false
	for _, t := range res.Taps {
		if t.Name == "SearchUniversal" {
			engine = true
		}
	}
	if !engine {
		return fail("not-searched", "the database was loaded but never searched")
	}
	o.Probes["c15.cli_cases"] = 1
	o.NonTrivial = c.Main.Kind != "valid" || c.Main.Fault != "" || c.Personal.Kind != "missing"
	o.Behaviour = fmt.Sprintf("cli %s/%s|%s/%s att=%d sl=%d ok=%v", c.Main.Kind, c.Main.Fault, c.Personal.Kind, c.Personal.Fault, attempts, len(res.Sleeps), success)
	return o
}

func runC15(c C15Case) *Outcome {
	if c.CLI {
		return runC15Body(c)
	}
	return scheduledOutcome(c.Sched, func() *Outcome { return runC15Body(c) })
}

func runC15Body(c C15Case) *Outcome {
	o := &Outcome{Probes: map[string]int{}, Faults: map[string]int{}}
	if c.CLI {
		return runC15CLI(c, o)
	}
	simrt.SetOrderCanonical()
	simtime.Install(simtime.Epoch)
	if c.Rand != 0 {
		simrand.Install(c.Rand)
	}
	defer simtime.Uninstall()
	disk := simos.NewDisk()
	if c.NoNotebook {
		c.Personal = FileState{Kind: "missing"} // no notebook path at all: as if it were merely absent
	}
	var plan []simos.Fault
	plan = append(plan, c.Main.place(disk, c15Main)...)
	plan = append(plan, c.Personal.place(disk, c15Personal)...)
	plan = append(plan, c.Backup.place(disk, c15Main+".backup")...)
	simos.Mount(disk, plan)
	defer simos.Unmount()
	if len(c.IOLat) > 0 {
		simos.SetLatency(c.IOLat, simtime.Advance)
	}
	desc := fmt.Sprintf("main=%s/%s%d personal=%s/%s%d backup=%s cfg=%+v", c.Main.Kind, c.Main.Fault, c.Main.N, c.Personal.Kind, c.Personal.Fault, c.Personal.N, c.Backup.Kind, c.Cfg)
	fail := func(sig, f string, a ...any) *Outcome {
		o.Violation = fmt.Sprintf(f, a...) + "\n  " + desc + "\n  I/O trace: " + traceString(simos.Trace()) + fmt.Sprintf("\n  sleeps: %v", simtime.Sleeps())
		o.Sig = "C15/" + sig
		return o
	}
	spell := func(p string) string {
		switch c.Spelling {
		case 1:
			return strings.Replace(p, "/", "//", 1)
		case 2:
			return filepath.Dir(p) + "/./" + filepath.Base(p)
		case 3:
			return filepath.Dir(p) + "/zz/../" + filepath.Base(p)
		}
		return p
	}
	mainArg, persArg := spell(c15Main), spell(c15Personal)
	if c.Spelling == 3 {
		disk.MkdirAllRaw(filepath.Dir(c15Main)+"/zz", 0o755)
		disk.MkdirAllRaw(filepath.Dir(c15Personal)+"/zz", 0o755)
	}
	if c.NoNotebook {
		persArg = ""
	}
	dr := recovery.NewDatabaseRecovery(recovery.RetryConfig{MaxAttempts: c.Cfg.Attempts, BaseDelay: time.Duration(c.Cfg.BaseNS), MaxDelay: time.Duration(c.Cfg.CapNS), BackoffFactor: c.Cfg.Factor})
	// Again: further loads through the SAME recovery object (a long-lived caller); every load must satisfy the statement
	// on its own. Fault overlays that count occurrences ("the first open fails") run on, so a later load may well succeed.
	mainK, persK := 0, 0
	traceOff, sleepOff := 0, 0
	var digs []any
	var sleeps []time.Duration
	attempts := 0
	success := false
	judge := func(rep int) *Outcome {
		fail := func(sig, f string, a ...any) *Outcome {
			if rep > 0 {
				f = fmt.Sprintf("load %d through the same recovery object: ", rep+1) + f
			}
			return fail(sig, f, a...)
		}
		var db *database.Database
		var err error
		var pan any
		func() {
			defer func() {
				if pan = recover(); pan != nil && simrt.IsAbort(pan) {
					panic(pan)
				}
			}()
			db, err = dr.LoadDatabaseWithFallback(mainArg, persArg)
		}()
		trace := simos.Trace()[traceOff:]
		traceOff += len(trace)
		sleeps = simtime.Sleeps()[sleepOff:]
		sleepOff += len(sleeps)
		digs = append(digs, traceString(trace), sleeps, err == nil, db != nil)
		o.Digest = digestOf(digs)
		for k, v := range simos.Fired() {
			o.Faults[k] += v
		}
		if pan != nil {
			return fail("panic", "LoadDatabaseWithFallback panicked: %v", pan)
		}
		if err != nil {
			return fail("error", "LoadDatabaseWithFallback returned an error: %v", err)
		}
		if db == nil {
			return fail("nil-db", "LoadDatabaseWithFallback returned (nil, nil)")
		}
		// attempts = opens of the main file
		attempts = 0
		for _, ev := range trace {
			if ev.Op == "open-r" && ev.Path == c15Main {
				attempts++
			}
		}
		allowed := c.Cfg.Attempts
		if allowed < 1 {
			allowed = 1
		}
		// reference: walk the attempts actually made (the per-file occurrence counters run on across the loads of one case)
		success = false
		var real []database.Command
		stopCause := ""
		made := 0
		for made < attempts {
			made++
			mc, mcmds := c.Main.outcomeAt(mainK)
			mainK++
			cause := ""
			if mc == "ok" {
				pc, pcmds := c.Personal.outcomeAt(persK)
				persK++
				switch pc {
				case "ok":
					success, real = true, append(append([]database.Command{}, mcmds...), pcmds...)
				case "enoent":
					success, real = true, mcmds
				default:
					cause = "personal:" + pc
				}
			} else {
				cause = "main:" + mc
			}
			if success {
				break
			}
			stopCause = cause
			if cause == "main:enoent" || cause == "main:eacces" || cause == "personal:eacces" {
				break
			}
		}
		if attempts == 0 {
			return fail("no-attempt", "the main file was never opened, yet a database was returned")
		}
		if made < attempts {
			if success {
				return fail("futile-retry", "attempt %d loaded the database, but the main file was opened %d times", made, attempts)
			}
			return fail("futile-retry", "%s was the cause at attempt %d (a missing or permission-denied file is tried once), but the main file was opened %d times", stopCause, made, attempts)
		}
		if attempts > allowed {
			return fail("too-many-attempts", "the main file was opened %d times, the configuration allows %d attempt(s)", attempts, allowed)
		}
		// waits
		capD := time.Duration(c.Cfg.CapNS)
		for i, d := range sleeps {
			if d < 0 {
				return fail("negative-wait", "wait %d is %v", i, d)
			}
			if d > capD {
				return fail("wait-over-cap", "wait %d is %v, the configured maximum is %v", i, d, capD)
			}
			if i > 0 && d < sleeps[i-1] {
				return fail("wait-decreases", "waits %v decrease at position %d", sleeps, i)
			}
		}
		if len(sleeps) > attempts-1 {
			return fail("futile-wait", "%d waits for %d attempt(s): a wait follows the last attempt", len(sleeps), attempts)
		}
		// the database
		var cmds []database.Command
		func() {
			defer func() {
				if pan = recover(); pan != nil && simrt.IsAbort(pan) {
					panic(pan)
				}
			}()
			cmds = db.Commands
			word := ""
			for _, cm := range cmds {
				for _, w := range strings.Fields(strings.ToLower(cm.Description + " " + strings.Join(cm.Keywords, " "))) {
					if len(w) >= 4 && strings.Trim(w, "abcdefghijklmnopqrstuvwxyz") == "" {
						word = w
						break
					}
				}
				if word != "" {
					break
				}
			}
			_ = db.SearchUniversal("list files", database.SearchOptions{Limit: 5, UseNLP: true, UseFuzzy: true})
			if word != "" {
				r := db.SearchUniversal(word, database.SearchOptions{Limit: 3, AllPlatforms: true})
				if len(r) == 0 {
					pan = fmt.Sprintf("a search for %q, a word of one of its own entries, returns nothing", word)
				}
			}
		}()
		if pan != nil {
			return fail("unsearchable", "the returned database cannot be searched: %v", pan)
		}
		if success {
			if d := sameEntries(cmds, real); d != "" {
				return fail("wrong-database", "the files load (main entries then notebook entries) but the returned database differs: %s", d)
			}
			o.Probes["c15.real_db"] = 1
			if attempts > 1 {
				o.Probes["retry.transient_recovered"] = 1
			}
		} else {
			if len(cmds) == 0 {
				return fail("empty-fallback", "nothing could be loaded and the fallback database is empty")
			}
			// "a built-in fallback": it cannot hold entries of a main or notebook file that did not load
			fromFiles := map[string]bool{}
			for _, f := range []*FileState{&c.Main, &c.Personal} {
				for _, cm := range f.Cmds {
					fromFiles[cm.Command+"\x00"+cm.Description] = true
				}
			}
			for _, cm := range cmds {
				if fromFiles[cm.Command+"\x00"+cm.Description] {
					return fail("partial-load", "loading failed (%s at the last attempt) yet the returned database contains the file entry %q instead of the built-in fallback", stopCause, cm.Command)
				}
			}
			o.Probes["c15.fallback_db"] = 1
			if attempts < allowed && stopCause != "main:enoent" && stopCause != "main:eacces" && stopCause != "personal:eacces" {
				o.Probes["c15.gave_up_before_budget"] = 1 // permitted by the statement ("at most"), counted
			}
		}
		return nil
	}
	for rep := 0; rep <= c.Again; rep++ {
		if v := judge(rep); v != nil {
			return v
		}
	}
	if c.Again > 0 {
		o.Probes["c15.loads_through_one_object"] = c.Again + 1
	}
	if len(sleeps) > 0 {
		o.Probes["retry.slept"] = 1
	}
	var total time.Duration
	for _, d := range sleeps {
		total += d
	}
	o.SimNanos = int64(total)
	o.NonTrivial = c.Main.Kind != "valid" || c.Main.Fault != "" || c.Personal.Kind != "missing" || c.Personal.Fault != ""
	o.Behaviour = fmt.Sprintf("%s/%s%d|%s/%s%d|%s|a%d|att=%d sl=%d ok=%v", c.Main.Kind, c.Main.Fault, c.Main.N, c.Personal.Kind, c.Personal.Fault, c.Personal.N, c.Backup.Kind, c.Cfg.Attempts, attempts, len(sleeps), success)
	return o
}

func traceString(tr []simos.Event) string {
	var sb strings.Builder
	for i, ev := range tr {
		if i > 0 {
			sb.WriteString(" ")
		}
		if i > 40 {
			sb.WriteString("...")
			break
		}
		fmt.Fprintf(&sb, "%s(%s)", ev.Op, ev.Path)
		if ev.Err != "" {
			sb.WriteString("=" + ev.Err)
		}
		if ev.Flt != "" {
			sb.WriteString("!" + ev.Flt)
		}
	}
	return sb.String()
}

var _ = fs.ModeDir

func TestC15(t *testing.T) { runPropertyEnum(t, "C15", c15Enumeration(), genC15, runC15) }
