package harness

// C11 — concurrent searches on one database are race-free and answer as if alone.
// World C: 2-4 clients run pre-generated operation lists on a seeded cooperative
// schedule (one client at a time, switches at lock / atomic / operation boundaries),
// in a -race binary whose happens-before graph contains only the code's own
// synchronisation. Oracles: race detector, as-if-alone answers, linearizability of the
// recorded cache history against a sequential LRU model (porcupine), conservation of
// metric increments, progress.

import (
	"fmt"
	"reflect"
	"sort"
	"strings"
	"testing"
	"time"

	"github.com/Vedant9500/WTF/internal/cache"
	"github.com/Vedant9500/WTF/internal/database"
	"github.com/Vedant9500/WTF/zz_verif/sim/simos"
	"github.com/Vedant9500/WTF/zz_verif/sim/simrt"
	"github.com/Vedant9500/WTF/zz_verif/sim/simtime"
	"github.com/anishathalye/porcupine"
	"pgregory.net/rapid"
)

type C11Op struct {
	Kind  string `json:"k"` // lru: put get delete size stats keys sweep clear advance; db: direct cached monitored invalidate cleanup stats report advance
	Key   int    `json:"key,omitempty"`
	Val   int    `json:"val,omitempty"`
	Adv   int64  `json:"adv,omitempty"`
	Q     int    `json:"q,omitempty"`
	O     int    `json:"o,omitempty"`
	Entry int    `json:"e,omitempty"`
}

type C11Case struct {
	// ShareOpts: every client passes the SAME options values (one ContextBoosts map object per option set), as the
	// tasks of one long-lived caller would; the engine may read them concurrently and must not write them
	ShareOpts bool `json:"callers_share_option_values,omitempty"`
	System   string    `json:"system"` // lru searchcache cached monitored
	Capacity int       `json:"capacity"`
	TTL      int64     `json:"ttl_ns"`
	DB       []Cmd     `json:"db,omitempty"`
	Queries  []string  `json:"queries,omitempty"`
	Options  []Opts    `json:"options,omitempty"`
	Clients  [][]C11Op `json:"clients"`
	Schedule []uint16  `json:"schedule"`
	// Prologue (cache systems): operations executed one after the other before the clients start, e.g. a few
	// stores followed by a clock step past the lifetime, so that the concurrent phase begins with expired,
	// not yet swept entries. They are part of the checked history.
	Prologue []C11Op `json:"prologue,omitempty"`
}

func genC11(rt *rapid.T) C11Case {
	var c C11Case
	c.System = rapid.SampledFrom([]string{"lru", "lru", "searchcache", "cached", "monitored", "monitored"}).Draw(rt, "system")
	nc := rapid.IntRange(2, 4).Draw(rt, "nclients")
	if c.System == "lru" || c.System == "searchcache" {
		c.Capacity = rapid.IntRange(1, 3).Draw(rt, "capacity")
		c.TTL = rapid.SampledFrom([]int64{0, 0, int64(10 * time.Second)}).Draw(rt, "ttl")
		nkeys := rapid.IntRange(1, 4).Draw(rt, "nkeys")
		kinds := []string{"put", "put", "put", "get", "get", "get", "delete", "size", "stats", "keys", "sweep", "clear", "advance"}
		// swarm: most cases use the whole operation mix, some a narrow one over one or two keys, which makes
		// particular interactions (sweep against re-store of an expired key; delete/clear against store) dense
		switch rapid.IntRange(0, 3).Draw(rt, "mix") {
		case 0:
			kinds = []string{"get", "put", "put", "sweep", "sweep", "size", "get"}
			nkeys = rapid.IntRange(1, 2).Draw(rt, "nkeys2")
			c.TTL = int64(10 * time.Second)
		case 1:
			kinds = []string{"put", "put", "delete", "get", "clear", "size", "keys", "stats"}
			nkeys = rapid.IntRange(1, 2).Draw(rt, "nkeys2")
		}
		opGen := rapid.Custom(func(rt *rapid.T) C11Op {
			op := C11Op{Kind: rapid.SampledFrom(kinds).Draw(rt, "kind")}
			switch op.Kind {
			case "put", "get", "delete":
				op.Key = rapid.IntRange(0, nkeys-1).Draw(rt, "key")
			case "advance":
				op.Adv = rapid.SampledFrom([]int64{int64(4 * time.Second), int64(6 * time.Second), int64(11 * time.Second)}).Draw(rt, "adv")
			}
			return op
		})
		val := 0
		if c.TTL > 0 && rapid.IntRange(0, 3).Draw(rt, "prologue") > 0 {
			n := rapid.IntRange(1, nkeys).Draw(rt, "preput")
			for k := 0; k < n; k++ {
				val++
				c.Prologue = append(c.Prologue, C11Op{Kind: "put", Key: k, Val: val})
			}
			c.Prologue = append(c.Prologue, C11Op{Kind: "advance", Adv: int64(11 * time.Second)})
		}
		for i := 0; i < nc; i++ {
			ops := rapid.SliceOfN(opGen, 1, tierN(6, 9)).Draw(rt, "client")
			for j := range ops {
				if ops[j].Kind == "put" {
					val++
					ops[j].Val = val // unique values: every read is attributable to one write
				}
			}
			c.Clients = append(c.Clients, ops)
		}
	} else {
		c.Capacity = rapid.IntRange(1, 6).Draw(rt, "capacity")
		c.TTL = rapid.SampledFrom([]int64{0, int64(30 * time.Second)}).Draw(rt, "ttl")
		c.DB = genDB(rt, 12)
		nq := rapid.IntRange(1, 3).Draw(rt, "nq")
		for i := 0; i < nq; i++ {
			c.Queries = append(c.Queries, genQuery(rt, rapid.SampledFrom([]int{3, 3, 3, 12}).Draw(rt, "qmax")))
		}
		c.Options = []Opts{genOpts(rt)}
		if rapid.Bool().Draw(rt, "twoopts") {
			c.Options = append(c.Options, mutateOpt(rt, c.Options[0], rapid.SampledFrom(optFields).Draw(rt, "field")))
		}
		if rapid.IntRange(0, 2).Draw(rt, "shareopts") == 0 {
			c.ShareOpts = true
			if rapid.Bool().Draw(rt, "shareboosts") {
				c.Options[0] = entangleBoosts(rt, c.Options[0], c.Queries[0])
				c.Options[0].UseNLP = true
			}
		}
		kinds := []string{"direct", "cached", "cached", "cached", "invalidate", "cleanup", "stats", "advance"}
		if c.System == "monitored" {
			kinds = append(kinds, "monitored", "monitored", "monitored", "report")
		}
		opGen := rapid.Custom(func(rt *rapid.T) C11Op {
			op := C11Op{Kind: rapid.SampledFrom(kinds).Draw(rt, "kind")}
			switch op.Kind {
			case "direct", "cached", "monitored":
				op.Q = rapid.IntRange(0, len(c.Queries)-1).Draw(rt, "q")
				op.O = rapid.IntRange(0, len(c.Options)-1).Draw(rt, "o")
				op.Entry = rapid.IntRange(0, 3).Draw(rt, "entry")
			case "advance":
				op.Adv = rapid.SampledFrom([]int64{int64(10 * time.Second), int64(31 * time.Second)}).Draw(rt, "adv")
			}
			return op
		})
		for i := 0; i < nc; i++ {
			c.Clients = append(c.Clients, rapid.SliceOfN(opGen, 1, tierN(6, 10)).Draw(rt, "client"))
		}
	}
	c.Schedule = genSchedule(rt, tierN(300, 700))
	return c
}

// ---------------------------------------------------------------------------
// sequential LRU specification for porcupine (the C12 model in functional form)

const lruSlots = 5

type lruSt struct {
	n                    int8
	key                  [lruSlots]int8
	val                  [lruSlots]int32
	first, last          [lruSlots]int64
	now                  int64
	hits, misses, evicts int32
	cap                  int8
	ttl                  int64
}

func (s lruSt) find(k int) int {
	for i := 0; i < int(s.n); i++ {
		if int(s.key[i]) == k {
			return i
		}
	}
	return -1
}

func (s lruSt) removed(i int) lruSt {
	for j := i; j < int(s.n)-1; j++ {
		s.key[j], s.val[j], s.first[j], s.last[j] = s.key[j+1], s.val[j+1], s.first[j+1], s.last[j+1]
	}
	s.n--
	j := int(s.n)
	s.key[j], s.val[j], s.first[j], s.last[j] = 0, 0, 0, 0
	return s
}

func (s lruSt) fronted(i int) lruSt {
	k, v, f, l := s.key[i], s.val[i], s.first[i], s.last[i]
	for j := i; j > 0; j-- {
		s.key[j], s.val[j], s.first[j], s.last[j] = s.key[j-1], s.val[j-1], s.first[j-1], s.last[j-1]
	}
	s.key[0], s.val[0], s.first[0], s.last[0] = k, v, f, l
	return s
}

// t is the clock value the operation read: any value the clock had between the
// operation's invocation and its linearization point (an implementation may read the
// clock before or after it takes its lock).
func (s lruSt) mustMiss(i int, t int64) bool { return s.ttl > 0 && t-s.last[i] > s.ttl }
func (s lruSt) mustHit(i int, t int64) bool  { return s.ttl <= 0 || t-s.first[i] <= s.ttl }
func (s lruSt) expired(i int, t int64) bool  { return s.ttl > 0 && t-s.first[i] > s.ttl }

type lruIn struct {
	Op      string
	Key     int
	Val     int
	Adv     int64
	Soft    bool  // SearchCache entry point: no Keys()/Delete()
	CallNow int64 // simulated clock at invocation
}

type lruOut struct {
	Val   int
	Ok    bool
	N     int
	Stats [4]int64 // hits misses evictions size
	Keys  uint32   // bit set
}

// lruStepClocks returns the step function for a run in which the clock took the given
// (ascending) values.
func lruStepClocks(clocks []int64) func(state, input, output interface{}) []interface{} {
	return func(state, input, output interface{}) []interface{} {
		s := state.(lruSt)
		in := input.(lruIn)
		var res []interface{}
		seen := false
		for _, t := range clocks {
			if t >= in.CallNow && t <= s.now {
				seen = true
				res = append(res, lruStepAt(s, in, output.(lruOut), t)...)
			}
		}
		if !seen {
			res = lruStepAt(s, in, output.(lruOut), s.now)
		}
		return res
	}
}

func lruStepAt(s lruSt, in lruIn, out lruOut, t int64) []interface{} {
	one := func(x lruSt) []interface{} { return []interface{}{x} }
	switch in.Op {
	case "advance":
		s.now += in.Adv
		return one(s)
	case "put":
		if i := s.find(in.Key); i >= 0 {
			s.val[i] = int32(in.Val)
			s.last[i] = t
			return one(s.fronted(i))
		}
		j := int(s.n)
		s.key[j], s.val[j], s.first[j], s.last[j] = int8(in.Key), int32(in.Val), t, t
		s.n++
		s = s.fronted(j)
		if int(s.n) > int(s.cap) {
			s = s.removed(int(s.n) - 1)
			s.evicts++
		}
		return one(s)
	case "get":
		i := s.find(in.Key)
		switch {
		case i < 0:
			if out.Ok {
				return nil
			}
			s.misses++
			return one(s)
		case s.mustMiss(i, t):
			if out.Ok {
				return nil
			}
			s.misses++
			return []interface{}{s, s.removed(i)}
		case s.mustHit(i, t):
			if !out.Ok || out.Val != int(s.val[i]) {
				return nil
			}
			s.hits++
			return one(s.fronted(i))
		default:
			if out.Ok {
				if out.Val != int(s.val[i]) {
					return nil
				}
				s.hits++
				return one(s.fronted(i))
			}
			s.misses++
			return []interface{}{s, s.removed(i)}
		}
	case "delete":
		i := s.find(in.Key)
		if i < 0 {
			if out.Ok {
				return nil
			}
			return one(s)
		}
		if out.Ok {
			return one(s.removed(i))
		}
		if s.mustHit(i, t) {
			return nil
		}
		return []interface{}{s, s.removed(i)}
	case "clear":
		cap, ttl, now := s.cap, s.ttl, s.now
		return one(lruSt{cap: cap, ttl: ttl, now: now})
	case "size":
		if out.N != int(s.n) {
			return nil
		}
		return one(s)
	case "stats":
		if out.Stats != [4]int64{int64(s.hits), int64(s.misses), int64(s.evicts), int64(s.n)} {
			return nil
		}
		return one(s)
	case "keys":
		var set uint32
		for i := 0; i < int(s.n); i++ {
			set |= 1 << uint(s.key[i])
		}
		if set != out.Keys {
			return nil
		}
		return one(s)
	case "sweep":
		// any out.N of the expired entries may have gone
		var exp []int
		for i := 0; i < int(s.n); i++ {
			if s.expired(i, t) {
				exp = append(exp, i)
			}
		}
		if out.N < 0 || out.N > len(exp) {
			return nil
		}
		var res []interface{}
		for mask := 0; mask < 1<<len(exp); mask++ {
			cnt := 0
			for b := range exp {
				if mask&(1<<b) != 0 {
					cnt++
				}
			}
			if cnt != out.N {
				continue
			}
			x := s
			for b := len(exp) - 1; b >= 0; b-- {
				if mask&(1<<b) != 0 {
					x = x.removed(exp[b])
				}
			}
			res = append(res, x)
		}
		return res
	}
	return nil
}

func lruPorcupineModel(capacity int, ttl int64, clocks []int64) porcupine.Model {
	nm := porcupine.NondeterministicModel{
		Init: func() []interface{} { return []interface{}{lruSt{cap: int8(capacity), ttl: ttl, now: clocks[0]}} },
		Step: lruStepClocks(clocks),
		DescribeOperation: func(in, out interface{}) string {
			return fmt.Sprintf("%+v -> %+v", in, out)
		},
	}
	return nm.ToModel()
}

// ---------------------------------------------------------------------------

type c11HistOp struct {
	In        lruIn
	Out       lruOut
	Call, Ret int64
}

type c11SearchObs struct {
	Kind  string
	Q, O  int
	Entry int
	Got   []Res
}

type c11ClientRec struct {
	hist     []c11HistOp
	searches []c11SearchObs
	lookups  int // cache lookups this client caused (cached = 1, monitored = 2)
	monSrch  int
	statsBad string
}

var c11CachedEntries = []string{"SearchWithOptionsAndCache", "SearchWithCache", "SearchWithPipelineOptionsAndCache", "SearchWithFuzzyAndCache"}

func c11EffOpts(kind string, entry int, o Opts) Opts {
	switch kind {
	case "cached":
		if entry%4 == 1 {
			return Opts{Limit: o.Limit}
		}
	case "monitored":
		if entry%2 == 1 {
			return Opts{Limit: o.Limit}
		}
	}
	return o
}

func runC11(c C11Case) *Outcome {
	o := &Outcome{Probes: map[string]int{}}
	simrt.SetOrderCanonical()
	simtime.Install(simtime.Epoch)
	defer simtime.Uninstall()
	var log []string
	fail := func(sig, f string, a ...any) *Outcome {
		o.Violation = fmt.Sprintf(f, a...) + "\n  system " + c.System + "; " + strings.Join(log, " ; ")
		o.Sig = "C11/" + sig
		if o.Digest == "" {
			o.Digest = digestOf(log)
		}
		return o
	}
	var prologueRec *c11ClientRec
	recs := make([]*c11ClientRec, len(c.Clients))
	clients := make([]func(), len(c.Clients))
	var expect map[[3]int][]Res
	var mdb *database.MonitoredDatabase
	invalidates := 0

	if c.System == "lru" || c.System == "searchcache" {
		var sut lruSUT
		if c.System == "lru" {
			sut = rawLRU{cache.NewLRUCache(c.Capacity, time.Duration(c.TTL))}
		} else {
			sut = &viaSearchCache{sc: cache.NewSearchCache(c.Capacity, time.Duration(c.TTL))}
		}
		soft := c.System == "searchcache"
		// prologue: sequential, stamped before every concurrent operation
		pre := &c11ClientRec{}
		for j, op := range c.Prologue {
			h := c11HistOp{In: lruIn{Op: op.Kind, Key: op.Key, Val: op.Val, Adv: op.Adv, Soft: soft, CallNow: simtime.NowNS()}, Call: int64(-4*(len(c.Prologue)-j) - 2)}
			switch op.Kind {
			case "put":
				sut.put(op.Key, op.Val)
			case "advance":
				simtime.Advance(time.Duration(op.Adv))
			}
			h.Ret = h.Call + 1
			pre.hist = append(pre.hist, h)
		}
		prologueRec = pre
		for i := range c.Clients {
			r := &c11ClientRec{}
			recs[i] = r
			ops := c.Clients[i]
			clients[i] = func() {
				for _, op := range ops {
					if soft && (op.Kind == "delete" || op.Kind == "keys") {
						continue
					}
					simrt.Yield("op")
					h := c11HistOp{In: lruIn{Op: op.Kind, Key: op.Key, Val: op.Val, Adv: op.Adv, Soft: soft, CallNow: simtime.NowNS()}, Call: 2 * simrt.Now()}
					switch op.Kind {
					case "put":
						sut.put(op.Key, op.Val)
					case "get":
						h.Out.Val, h.Out.Ok = sut.get(op.Key)
					case "delete":
						h.Out.Ok = sut.del(op.Key)
					case "size":
						h.Out.N = sut.size()
					case "stats":
						s := sut.stats()
						h.Out.Stats = [4]int64{s.Hits, s.Misses, s.Evictions, int64(s.Size)}
					case "keys":
						for _, k := range sut.keys() {
							h.Out.Keys |= 1 << uint(k)
						}
					case "sweep":
						h.Out.N = sut.sweep()
					case "clear":
						sut.clear()
					case "advance":
						simtime.Advance(time.Duration(op.Adv))
					}
					h.Ret = 2*simrt.Now() + 1
					r.hist = append(r.hist, h)
				}
			}
		}
	} else {
		disk := simos.NewDisk()
		simos.Mount(disk, nil)
		defer simos.Unmount()
		disk.WriteRaw("/data/main.yml", yamlOf(c.DB), 0o644)
		db, err := database.LoadDatabase("/data/main.yml")
		if err != nil {
			o.Skip = true
			return o
		}
		mdb = database.NewMonitoredDatabase(db)
		p := fieldByType(mdb, reflect.TypeOf((*cache.Manager)(nil)))
		if p == nil {
			o.Violation, o.Sig = "harness: no *cache.Manager field reachable from MonitoredDatabase", "HARNESS"
			return o
		}
		mgr := *(**cache.Manager)(p)
		*mgr.GetSearchCache() = *cache.NewSearchCache(c.Capacity, time.Duration(c.TTL))
		// what every request returns when run alone: computed on a SEPARATELY loaded copy of the same files, so
		// that the object under test meets its first searches concurrently (state filled lazily "on first use"
		// would otherwise be warmed up by the harness itself)
		ref, rerr := database.LoadDatabase("/data/main.yml")
		if rerr != nil {
			o.Skip = true
			return o
		}
		expect = map[[3]int][]Res{}
		for _, cl := range c.Clients {
			for _, op := range cl {
				if op.Kind == "direct" || op.Kind == "cached" || op.Kind == "monitored" {
					eo := c11EffOpts(op.Kind, op.Entry, c.Options[op.O%len(c.Options)])
					k := [3]int{op.Q % len(c.Queries), op.O % len(c.Options), boolInt(len(optDiff(eo, c.Options[op.O%len(c.Options)])) == 0)}
					if _, ok := expect[k]; !ok {
						expect[k] = resOf(ref.SearchUniversal(c.Queries[k[0]], eo.toDB()))
					}
				}
				if op.Kind == "invalidate" {
					invalidates++
				}
			}
		}
		sharedOpts := map[string]database.SearchOptions{}
		dbOpts := func(eo Opts) database.SearchOptions {
			if !c.ShareOpts {
				return eo.toDB()
			}
			return sharedOpts[fmt.Sprintf("%+v", eo)]
		}
		if c.ShareOpts {
			for _, cl := range c.Clients {
				for _, op := range cl {
					if op.Kind == "direct" || op.Kind == "cached" || op.Kind == "monitored" {
						eo := c11EffOpts(op.Kind, op.Entry, c.Options[op.O%len(c.Options)])
						if _, ok := sharedOpts[fmt.Sprintf("%+v", eo)]; !ok {
							sharedOpts[fmt.Sprintf("%+v", eo)] = eo.toDB()
						}
					}
				}
			}
		}
		for i := range c.Clients {
			r := &c11ClientRec{}
			recs[i] = r
			ops := c.Clients[i]
			clients[i] = func() {
				for _, op := range ops {
					simrt.Yield("op")
					switch op.Kind {
					case "direct", "cached", "monitored":
						q := c.Queries[op.Q%len(c.Queries)]
						full := c.Options[op.O%len(c.Options)]
						eo := c11EffOpts(op.Kind, op.Entry, full)
						var got []database.SearchResult
						switch op.Kind {
						case "direct":
							got = mdb.Database.SearchUniversal(q, dbOpts(eo))
						case "cached":
							switch op.Entry % 4 {
							case 0:
								got = mdb.SearchWithOptionsAndCache(q, dbOpts(eo))
							case 1:
								got = mdb.SearchWithCache(q, eo.Limit)
							case 2:
								got = mdb.SearchWithPipelineOptionsAndCache(q, dbOpts(eo))
							default:
								got = mdb.SearchWithFuzzyAndCache(q, dbOpts(eo))
							}
							r.lookups++
						case "monitored":
							if op.Entry%2 == 1 {
								got = mdb.SearchWithMonitoring(q, eo.Limit)
							} else {
								got = mdb.SearchWithOptionsAndMonitoring(q, dbOpts(eo))
							}
							r.lookups += 2
							r.monSrch++
						}
						r.searches = append(r.searches, c11SearchObs{Kind: op.Kind, Q: op.Q % len(c.Queries), O: op.O % len(c.Options), Entry: boolInt(len(optDiff(eo, full)) == 0), Got: resOf(got)})
					case "invalidate":
						mdb.InvalidateCache()
					case "cleanup":
						mdb.CleanupExpiredCache()
					case "stats":
						s := mdb.GetCacheStats()["search"]
						if s.Size > s.Capacity || s.Size < 0 || s.Hits < 0 || s.Misses < 0 {
							r.statsBad = "cache statistics out of range"
						}
					case "report":
						_ = mdb.GetPerformanceReport()
					case "advance":
						simtime.Advance(time.Duration(op.Adv))
					}
				}
			}
		}
	}

	cr := runClients(clients, c.Schedule, 8000)
	log = append(log, fmt.Sprintf("clients=%d steps=%d interleaving=%s", len(clients), cr.Res.Steps, interleavingSig(cr.Res)))
	o.Probes["sched.lock_contended"] = cr.Res.Contended
	o.Probes["sched.decisions"] = len(cr.Res.Decisions)
	o.Behaviour = c.System + " " + interleavingSig(cr.Res)
	o.NonTrivial = len(cr.Res.Decisions) > 0
	// the digest covers the execution (interleaving and everything every client saw), not the detector's verdict
	var dig []any
	dig = append(dig, interleavingSig(cr.Res), cr.Res.Steps)
	for _, r := range recs {
		dig = append(dig, r.hist, r.searches)
	}
	o.Digest = digestOf(dig)

	if cr.Res.Deadlock {
		return fail("deadlock", "no client runnable before all finished: %s", cr.Res.DeadlockInfo)
	}
	if cr.Res.OverBudget {
		return fail("no-progress", "clients did not finish within %d scheduler steps", cr.Res.Steps)
	}
	for i, p := range cr.Res.Panics {
		return fail("panic", "client %d panicked: %s", i, p)
	}
	if cr.Races > 0 {
		return fail("race:"+raceSite(cr.RaceReport), "the race detector reported %d data race(s) on this (fully serialised) schedule:\n%s", cr.Races, cr.RaceReport)
	}

	if c.System == "lru" || c.System == "searchcache" {
		var ops []porcupine.Operation
		if prologueRec != nil {
			for _, h := range prologueRec.hist {
				ops = append(ops, porcupine.Operation{ClientId: len(recs), Input: h.In, Output: h.Out, Call: h.Call, Return: h.Ret})
			}
		}
		for ci, r := range recs {
			for _, h := range r.hist {
				ops = append(ops, porcupine.Operation{ClientId: ci, Input: h.In, Output: h.Out, Call: h.Call, Return: h.Ret})
			}
		}
		// the values the clock took, in real-time order (advances are atomic: no yield inside)
		var advs []porcupine.Operation
		for _, op := range ops {
			if op.Input.(lruIn).Op == "advance" {
				advs = append(advs, op)
			}
		}
		sort.Slice(advs, func(i, j int) bool { return advs[i].Call < advs[j].Call })
		clocks := []int64{simtime.Epoch.UnixNano()}
		for _, a := range advs {
			clocks = append(clocks, clocks[len(clocks)-1]+a.Input.(lruIn).Adv)
		}
		res := porcupine.CheckOperationsTimeout(lruPorcupineModel(c.Capacity, c.TTL, clocks), ops, 10*time.Second)
		switch res {
		case porcupine.Illegal:
			sort.Slice(ops, func(i, j int) bool { return ops[i].Call < ops[j].Call })
			var hs []string
			for _, op := range ops {
				hs = append(hs, fmt.Sprintf("c%d[%d,%d] %s", op.ClientId, op.Call, op.Return, descLRU(op.Input.(lruIn), op.Output.(lruOut))))
			}
			return fail("not-linearizable", "the recorded cache history (capacity %d, lifetime %v) has no sequential explanation consistent with real time:\n   %s", c.Capacity, time.Duration(c.TTL), strings.Join(hs, "\n   "))
		case porcupine.Unknown:
			o.Inconclusive++
		}
		o.Probes["c11.history_ops"] = len(ops)
		return o
	}

	// as if alone
	nsearch := 0
	lookups, monSrch := 0, 0
	for ci, r := range recs {
		if r.statsBad != "" {
			return fail("stats", "client %d: %s", ci, r.statsBad)
		}
		lookups += r.lookups
		monSrch += r.monSrch
		for _, s := range r.searches {
			nsearch++
			want := expect[[3]int{s.Q, s.O, s.Entry}]
			if !resEqual(s.Got, want) {
				return fail("not-as-if-alone:"+s.Kind, "client %d: %s search %q (options #%d) returned %s; run alone it returns %s", ci, s.Kind, c.Queries[s.Q], s.O, resString(s.Got), resString(want))
			}
		}
	}
	o.Probes["c11.concurrent_searches"] = nsearch
	// nothing wrong may be left in the cache
	var eks [][3]int
	for k := range expect {
		eks = append(eks, k)
	}
	sort.Slice(eks, func(i, j int) bool {
		return eks[i][0]*100+eks[i][1]*10+eks[i][2] < eks[j][0]*100+eks[j][1]*10+eks[j][2]
	})
	for _, k := range eks {
		want := expect[k]
		eo := c.Options[k[1]]
		if k[2] == 0 {
			eo = Opts{Limit: eo.Limit}
		}
		got := resOf(mdb.SearchWithOptionsAndCache(c.Queries[k[0]], eo.toDB()))
		lookups++
		if !resEqual(got, want) {
			return fail("cache-poisoned", "after the concurrent phase a cached search for %q returns %s; uncached it returns %s", c.Queries[k[0]], resString(got), resString(want))
		}
	}
	st := mdb.GetCacheStats()["search"]
	if invalidates == 0 {
		if int(st.Hits+st.Misses) != lookups {
			return fail("lost-lookup-count", "the cache counted %d hits + %d misses, %d lookups were made (no clear in between)", st.Hits, st.Misses, lookups)
		}
	} else if int(st.Hits+st.Misses) > lookups {
		return fail("lost-lookup-count", "the cache counted %d hits + %d misses, only %d lookups were made", st.Hits, st.Misses, lookups)
	}
	if st.Size > st.Capacity {
		return fail("bound", "cache holds %d entries, capacity %d", st.Size, st.Capacity)
	}
	if c.System == "monitored" {
		mval, _ := seriesOf(mdb.GetPerformanceReport().ApplicationMetrics)
		tot := int(mval[`counter|searches_total|"cache_hit"="true",`] + mval[`counter|searches_total|"cache_hit"="false",`])
		if tot != monSrch {
			return fail("lost-increment", "searches_total = %d after %d monitored searches", tot, monSrch)
		}
		if hm := int(mval["counter|cache_hits_total|"] + mval["counter|cache_misses_total|"]); hm != monSrch {
			return fail("lost-increment", "cache_hits_total+cache_misses_total = %d after %d monitored searches", hm, monSrch)
		}
		if ql := int(mval["histogram|query_length_count|"]); ql != monSrch {
			return fail("lost-increment", "query_length histogram holds %d observations after %d monitored searches", ql, monSrch)
		}
		o.Probes["c11.monitored_searches"] = monSrch
	}
	return o
}

func boolInt(b bool) int {
	if b {
		return 1
	}
	return 0
}

func descLRU(in lruIn, out lruOut) string {
	switch in.Op {
	case "put":
		return fmt.Sprintf("put(k%d,%d)", in.Key, in.Val)
	case "get":
		return fmt.Sprintf("get(k%d)=%d,%v", in.Key, out.Val, out.Ok)
	case "delete":
		return fmt.Sprintf("delete(k%d)=%v", in.Key, out.Ok)
	case "size":
		return fmt.Sprintf("size=%d", out.N)
	case "stats":
		return fmt.Sprintf("stats{hits,misses,evictions,size}=%v", out.Stats)
	case "keys":
		return fmt.Sprintf("keys=%b", out.Keys)
	case "sweep":
		return fmt.Sprintf("sweep=%d", out.N)
	case "advance":
		return fmt.Sprintf("advance(%v)", time.Duration(in.Adv))
	}
	return in.Op
}

func TestC11(t *testing.T) { runProperty(t, "C11", genC11, runC11) }
