package harness

// C09 — an interrupted or failed write never damages the notebook or the history.
// World P, fault enumeration: the target invocation (save / save-pipeline / re-save /
// search) is first run fault-free with tracing; then, from the same pre-state, one
// child process is run per fault: killed before and after every I/O event, every write
// torn after k bytes (all k for small writes), short writes and refused calls with
// ENOSPC / EDQUOT / EIO / EACCES / EMFILE / EROFS on every event, and disk quotas that
// land inside each write.

import (
	"fmt"
	"sort"
	"strings"
	"sync"
	"syscall"
	"testing"
	"time"

	"github.com/Vedant9500/WTF/internal/history"
	"github.com/Vedant9500/WTF/zz_verif/sim/simos"
	"github.com/Vedant9500/WTF/zz_verif/sim/simrt"
	"github.com/Vedant9500/WTF/zz_verif/sim/simtime"
	"pgregory.net/rapid"
)

// FaultSpec is one enumerated fault (also the narrowed form stored in replay files).
type FaultSpec struct {
	Kind  string `json:"kind"` // kill-before kill-after torn short fail quota
	At    int    `json:"at"`
	K     int    `json:"k,omitempty"`
	Errno int    `json:"errno,omitempty"`
	Quota int    `json:"quota,omitempty"`
	// Then is a second fault in the same process: what the code does after the first fault
	// (clean-up, fallback, retry) is I/O too and can be cut short as well.
	Then *FaultSpec `json:"then,omitempty"`
	// Follow: after the faulted process, run a small healthy save and a search from the disk it left
	// behind (stray temporary files included) and from the same disk without the strays; both must
	// produce the same notebook and history. A leftover of an interrupted write must not leak into a
	// later write.
	Follow bool `json:"follow,omitempty"`
}

type C09Case struct {
	Main      []Cmd      `json:"main"`
	Notebook  []Cmd      `json:"notebook"` // empty + NotebookMissing => no file
	NBMissing bool       `json:"notebook_missing,omitempty"`
	Pad       int        `json:"pad,omitempty"` // extra description bytes per entry (bigger files)
	HistoryN  int        `json:"history_n"`     // earlier searches recorded
	Target    C08Step    `json:"target"`
	KSeeds    []int      `json:"k_seeds"` // extra prefix lengths (mod write size)
	Only      *FaultSpec `json:"only,omitempty"`
	TmpMount  bool       `json:"tmp_is_own_filesystem,omitempty"` // /tmp on a tmpfs: renames from there into $HOME fail with EXDEV
	Sched     []uint16   `json:"sched,omitempty"`                 // schedule vector of every process of the case
	Link      string     `json:"notebook_is_link,omitempty"`      // "rel" / "abs": the notebook path is a symbolic link to the real file
	Light     bool       `json:"light,omitempty"`                 // reference-run checks + a thin sample of the faults instead of all of them
}

func genC09(rt *rapid.T) C09Case {
	var c C09Case
	c.Main = genDB(rt, 5)
	c.NBMissing = rapid.IntRange(0, 4).Draw(rt, "nbmissing") == 0
	if !c.NBMissing {
		c.Notebook = genDB(rt, tierN(12, 40))
	}
	c.Pad = rapid.SampledFrom([]int{0, 0, 40, 300}).Draw(rt, "pad")
	c.HistoryN = rapid.SampledFrom([]int{0, 1, 2, 3, 5, 5, 12, 30, 100, 130}).Draw(rt, "histn") // past the view default (10) and the maximum (100)
	kind := rapid.SampledFrom([]string{"save", "save", "savepipe", "resavepipe", "resave", "search", "search", "clear"}).Draw(rt, "kind")
	c.Target = C08Step{Kind: kind}
	c.Target.Command = quoteS(rapid.SampledFrom(tools).Draw(rt, "tool") + " " + genWord(rt, "w1") + " " + rapid.SampledFrom([]string{"-x", "| sort", "{{.Names}}", "# c", "x"}).Draw(rt, "tail"))
	c.Target.Desc = quoteS(genWord(rt, "d1") + " " + genWord(rt, "d2") + rapid.SampledFrom([]string{"", ": yes", "\nline2"}).Draw(rt, "dtail"))
	c.Target.Name = quoteS(genWord(rt, "n1"))
	if rapid.Bool().Draw(rt, "kw") {
		c.Target.Keywords = []string{quoteS(genWord(rt, "k1"))}
	}
	c.Target.Target = rapid.IntRange(0, 11).Draw(rt, "target")
	c.Target.HasDesc = rapid.Bool().Draw(rt, "hasdesc")
	c.KSeeds = rapid.SliceOfN(rapid.IntRange(0, 100000), 8, 8).Draw(rt, "kseeds")
	c.TmpMount = rapid.Bool().Draw(rt, "tmpmount")
	if rapid.Bool().Draw(rt, "hassched") {
		c.Sched = genSchedule(rt, 40)
	}
	c.Light = rapid.IntRange(0, 3).Draw(rt, "light") > 0
	if !c.NBMissing && rapid.IntRange(0, 2).Draw(rt, "linked") == 0 {
		c.Link = rapid.SampledFrom([]string{"rel", "abs"}).Draw(rt, "linkkind")
	}
	return c
}

func quoteS(s string) string { return fmt.Sprintf("%q", s) }

// preState builds the disk before the target step.
func (c *C09Case) preState() *pworld {
	w := c.preState0()
	if c.Target.Kind == "resavepipe" {
		first := []string{"save-pipeline", "--", unq(c.Target.Name), unq(c.Target.Command)}
		if _, err := w.run(argsOf(first...), nil, nil, "pre"); err != nil {
			panic("harness: pre-state save-pipeline: " + err.Error())
		}
		w.clockNS += int64(time.Hour)
	}
	return w
}

func (c *C09Case) preState0() *pworld {
	w := newPWorld()
	w.sched = c.Sched
	if c.TmpMount {
		w.disk.Mounts = []string{"/tmp"}
	}
	w.disk.WriteRaw(pMainDB, yamlOf(c.Main), 0o644)
	if !c.NBMissing {
		nb := append([]Cmd(nil), c.Notebook...)
		for i := range nb {
			if c.Pad > 0 {
				nb[i].Description += " " + strings.Repeat("pad ", c.Pad/4)
			}
		}
		w.disk.WriteRaw(pNotebook, yamlOf(nb), 0o644)
		linkNotebook(w.disk, c.Link)
	}
	if c.HistoryN > 0 {
		simtime.Install(time.Unix(0, w.clockNS))
		simos.SetClock(simtime.Now)
		simos.Mount(w.disk, nil)
		simrt.SetOrderCanonical()
		inSim(c.Sched, func() {
			h := history.NewSearchHistory(pHistory, 100)
			for i := 0; i < c.HistoryN; i++ {
				h.AddEntry(fmt.Sprintf("earlier query %d", i), i, "", time.Duration(i)*time.Millisecond)
				simtime.Advance(time.Minute)
			}
			_ = h.Save()
		})
		w.clockNS = simtime.NowNS()
		simos.Unmount()
		simtime.Uninstall()
	}
	return w
}

func (c *C09Case) targetArgs(w *pworld) []string {
	t := c.Target
	cmd, desc, name := unq(t.Command), unq(t.Desc), unq(t.Name)
	switch t.Kind {
	case "search":
		return []string{"search", "--all-platforms", "-d", pMainDB, genSearchWords(c)}
	case "clear":
		return []string{"history", "--clear"}
	case "savepipe", "resavepipe":
		// resavepipe: the pre-state already holds a pipeline saved under this name (by a real, healthy save-pipeline
		// in preState); the target saves another command under the same name
		if t.Kind == "resavepipe" {
			cmd += " | sort -u"
		}
		args := []string{"save-pipeline"}
		for _, k := range unqAll(t.Keywords) {
			args = append(args, "-k", k)
		}
		if t.HasDesc {
			args = append(args, "--description="+desc)
		}
		return append(args, "--", name, cmd)
	case "resave":
		if len(c.Notebook) > 0 && !c.NBMissing {
			cmd = c.Notebook[t.Target%len(c.Notebook)].Command
		}
	}
	args := []string{"save"}
	for _, k := range unqAll(t.Keywords) {
		args = append(args, "-k", k)
	}
	return append(args, "--", cmd, desc)
}

func genSearchWords(c *C09Case) string {
	ws := searchableWords(unq(c.Target.Desc), unq(c.Target.Command))
	if len(ws) == 0 {
		return "list files"
	}
	if len(ws) > 2 {
		ws = ws[:2]
	}
	return strings.Join(ws, " ")
}

// prefix lengths to try for a write of n bytes
func kSet(n int, seeds []int, thorough bool) []int {
	set := map[int]bool{}
	limit := 512
	if thorough {
		limit = 8192
	}
	if n <= limit {
		for k := 0; k <= n; k++ {
			set[k] = true
		}
	} else {
		for k := 0; k <= 16 && k <= n; k++ {
			set[k] = true
		}
		for _, s := range seeds {
			set[s%(n+1)] = true
		}
		for b := 512; b < n; b *= 2 {
			set[b] = true
			set[b-1] = true
		}
		for b := 4096; b < n; b += 4096 {
			set[b] = true
		}
		set[n-2], set[n-1], set[n] = true, true, true
	}
	var out []int
	for k := range set {
		if k >= 0 && k <= n {
			out = append(out, k)
		}
	}
	sort.Ints(out)
	return out
}

func (f FaultSpec) plan() ([]simos.Fault, int) {
	var fl []simos.Fault
	quota := 0
	switch f.Kind {
	case "kill-before":
		fl = []simos.Fault{{Kind: simos.KillBefore, At: f.At}}
	case "kill-after":
		fl = []simos.Fault{{Kind: simos.KillAfter, At: f.At}}
	case "torn":
		fl = []simos.Fault{{Kind: simos.Torn, At: f.At, K: f.K}}
	case "short":
		fl = []simos.Fault{{Kind: simos.Short, At: f.At, K: f.K, Errno: f.Errno}}
	case "fail":
		fl = []simos.Fault{{Kind: simos.Fail, At: f.At, Errno: f.Errno}}
	case "quota":
		quota = f.Quota
	}
	if f.Then != nil {
		more, _ := f.Then.plan()
		fl = append(fl, more...)
	}
	return fl, quota
}

func (f FaultSpec) String() string {
	s := fmt.Sprintf("%s@%d", f.Kind, f.At)
	if f.Kind == "torn" || f.Kind == "short" {
		s += fmt.Sprintf("(k=%d)", f.K)
	}
	if f.Errno != 0 {
		s += "/" + syscall.Errno(f.Errno).Error()
	}
	if f.Kind == "quota" {
		s += fmt.Sprintf("(%d bytes)", f.Quota)
	}
	if f.Then != nil {
		s += " then " + f.Then.String()
	}
	return s
}

func fileOf(d *simos.Disk, p string) string {
	b, ok := d.ReadRaw(p)
	if !ok {
		return ""
	}
	return string(b)
}

type c09Verdict struct {
	spec FaultSpec
	sig  string
	msg  string
	out  string // outcome class for coverage
	err  error
	more []FaultSpec // second-level faults on what the process did after this one
}

func runC09(c C09Case) *Outcome {
	o := &Outcome{Probes: map[string]int{}, Faults: map[string]int{}}
	w := c.preState()
	args := c.targetArgs(w)
	desc := quoteArgs(argsOf(args...))
	oldNB, oldH := fileOf(w.disk, pNotebook), fileOf(w.disk, pHistory)
	fail := func(sig, f string, a ...any) *Outcome {
		o.Violation = fmt.Sprintf(f, a...) + fmt.Sprintf("\n  target step: %s\n  pre-state: notebook %d bytes, history %d bytes", desc, len(oldNB), len(oldH))
		o.Sig = "C09/" + sig
		return o
	}
	// 1. fault-free reference run
	ref, err := w.probe(argsOf(args...), nil, "ref")
	if err != nil {
		o.Harness = err.Error()
		return o
	}
	if ref.Exit != "exit" {
		return fail("crash", "the fault-free run crashed: %s", exitDesc(ref))
	}
	newNB, newH := fileOf(ref.Disk, pNotebook), fileOf(ref.Disk, pHistory)
	isSave := c.Target.Kind != "search" && c.Target.Kind != "clear"
	if isSave && !strings.Contains(string(ref.Stdout), "saved successfully!") {
		o.Skip = true // the target itself is rejected (duplicate flags etc.): nothing to enumerate
		return o
	}
	if isSave && newNB == oldNB {
		// "a save that did not fully take effect reports failure": this one reported success; did it take effect?
		// (re-saving an entry exactly as it is stored leaves the bytes alone - then the command is in the notebook)
		cmds, lerr := loadNotebookFrom(ref.Disk, pNotebook)
		want := unq(c.Target.Command)
		if c.Target.Kind == "resave" && len(c.Notebook) > 0 && !c.NBMissing {
			want = c.Notebook[c.Target.Target%len(c.Notebook)].Command
		}
		found := false
		for _, cm := range cmds {
			if cm.Command == want {
				found = true
			}
		}
		if lerr != nil || !found {
			return fail("success-without-effect", "without any fault the step reports success, but the notebook is byte for byte what it was and does not hold the command %q", want)
		}
	}
	// 2. the fault space of this step
	thorough := *flagTier == "thorough"
	var specs []FaultSpec
	if c.Only != nil {
		specs = []FaultSpec{*c.Only}
	} else {
		errnos := []syscall.Errno{syscall.ENOSPC, syscall.EDQUOT, syscall.EIO}
		failErrnos := []syscall.Errno{syscall.EIO, syscall.EACCES, syscall.ENOSPC, syscall.EMFILE, syscall.EROFS}
		for _, ev := range ref.Trace {
			interesting := strings.Contains(ev.Path, "personal.yml") || strings.Contains(ev.Path, "search_history.json") || strings.Contains(ev.Path, "cmd-finder") || strings.Contains(ev.Path, "/wtf") || strings.HasPrefix(ev.Path, "/tmp/")
			if !interesting {
				continue
			}
			specs = append(specs, FaultSpec{Kind: "kill-before", At: ev.Idx, Follow: true}, FaultSpec{Kind: "kill-after", At: ev.Idx, Follow: true})
			// refused calls: on the write path only. A failing read or stat changes what the step
			// computes (and is not "a write cut short"); the exact old-or-new oracle applies to writes.
			switch ev.Op {
			case "open-w", "write", "close", "fsync", "rename", "remove", "chmod", "mkdir", "truncate":
				for _, e := range failErrnos {
					specs = append(specs, FaultSpec{Kind: "fail", At: ev.Idx, Errno: int(e)})
				}
			}
			if ev.Op == "write" {
				ks := kSet(ev.N, c.KSeeds, thorough)
				for i, k := range ks {
					follow := k >= ev.N-2 || i%(len(ks)/10+1) == 0
					specs = append(specs, FaultSpec{Kind: "torn", At: ev.Idx, K: k, Follow: follow})
				}
				// short writes: a thinner set of k, every errno
				for i, k := range ks {
					if len(ks) > 40 && i%(len(ks)/40+1) != 0 && k != ev.N-1 && k != 0 {
						continue
					}
					for _, e := range errnos {
						specs = append(specs, FaultSpec{Kind: "short", At: ev.Idx, K: k, Errno: int(e)})
					}
				}
				// quotas landing inside this write (whether it overwrites the live file or fills a new one)
				base := w.disk.TotalBytes()
				lenOld := 0
				if strings.Contains(ev.Path, "personal") {
					lenOld = len(oldNB)
				} else if strings.Contains(ev.Path, "history") {
					lenOld = len(oldH)
				}
				for _, q := range []int{1, ev.N / 2, ev.N - 1} {
					if q > 0 {
						specs = append(specs, FaultSpec{Kind: "quota", At: ev.Idx, Quota: base - lenOld + q}, FaultSpec{Kind: "quota", At: ev.Idx, Quota: base + q})
					}
				}
			}
		}
	}
	if c.Light && c.Only == nil && len(specs) > 24 {
		// a light case: the reference-run checks above and a thin, case-determined sample of the fault space (many
		// more pre-states per minute; the full enumeration is the business of the other cases)
		var thin []FaultSpec
		stride := len(specs)/24 + 1
		for i := c.KSeeds[0] % stride; i < len(specs); i += stride {
			thin = append(thin, specs[i])
		}
		specs = thin
		o.Probes["c09.light_cases"] = 1
	}
	// 3. one child process per fault, a few at a time
	verdicts := make([]c09Verdict, len(specs))
	var wg sync.WaitGroup
	tags := make(chan string, 3)
	for _, t := range []string{"f0", "f1", "f2"} {
		tags <- t
	}
	for i := range specs {
		wg.Add(1)
		tag := <-tags
		go func(i int, tag string) {
			defer wg.Done()
			defer func() { tags <- tag }()
			verdicts[i] = c.judge(w, args, specs[i], tag, oldNB, newNB, oldH, newH, isSave)
		}(i, tag)
	}
	wg.Wait()
	// fault sequences: second faults on the I/O the process performed after a survived first fault
	if c.Only == nil {
		var more []FaultSpec
		for _, v := range verdicts {
			more = append(more, v.more...)
		}
		if len(more) > 300 {
			more = more[:300]
		}
		if len(more) > 0 {
			o.Probes["c09.second_level_faults"] = len(more)
			base := len(verdicts)
			verdicts = append(verdicts, make([]c09Verdict, len(more))...)
			specs = append(specs, more...)
			for i := range more {
				wg.Add(1)
				tag := <-tags
				go func(i int, tag string) {
					defer wg.Done()
					defer func() { tags <- tag }()
					verdicts[base+i] = c.judge(w, args, more[i], tag, oldNB, newNB, oldH, newH, isSave)
				}(i, tag)
			}
			wg.Wait()
		}
	}
	o.Evals = len(specs) + 1
	outcomes := map[string]int{}
	for _, v := range verdicts {
		if v.err != nil {
			o.Harness = v.err.Error()
			return o
		}
		o.Faults[v.spec.Kind]++
		outcomes[v.out]++
	}
	for _, v := range verdicts {
		if v.sig != "" {
			only := c
			sp := v.spec
			only.Only = &sp
			o.Replay = only
			return fail(v.sig, "%s", v.msg)
		}
	}
	// 4. the states a fault can leave behind are the old and the new one: the next search must work from both
	if c.Only == nil {
		for _, st := range []*simos.Disk{w.disk, ref.Disk} {
			w2 := &pworld{disk: st.Clone(), clockNS: w.clockNS + int64(time.Hour), sched: w.sched}
			r2, err := w2.probe(argsOf("search", "--all-platforms", "-d", pMainDB, "list files"), nil, "after")
			if err != nil {
				o.Harness = err.Error()
				return o
			}
			o.Evals++
			if r2.Exit != "exit" {
				return fail("next-search-crash", "a search after the step crashed: %s", exitDesc(r2))
			}
		}
	}
	for k, v := range outcomes {
		o.Probes["c09.outcome."+k] = v
	}
	o.Probes["c09.faults_enumerated"] = len(specs)
	o.NonTrivial = len(specs) > 10 || c.Light
	var ks []string
	for k, v := range outcomes {
		ks = append(ks, fmt.Sprintf("%s=%d", k, v))
	}
	sort.Strings(ks)
	o.Behaviour = fmt.Sprintf("%s nb=%d h=%d ev=%d %s", c.Target.Kind, len(oldNB), len(oldH), len(ref.Trace), strings.Join(ks, ","))
	o.Digest = digestOf([]any{desc, len(specs), ks})
	return o
}

// judge runs one faulted process and evaluates the oracle.
func (c *C09Case) judge(w *pworld, args []string, spec FaultSpec, tag, oldNB, newNB, oldH, newH string, isSave bool) c09Verdict {
	v := c09Verdict{spec: spec}
	plan, quota := spec.plan()
	job := &NodeJob{Args: argsOf(args...), Disk: w.disk.Clone(), ClockNS: w.clockNS, Faults: plan, Sched: w.sched}
	job.Disk.Quota = quota
	res, err := runNode(job, tag)
	if err != nil {
		v.err = err
		return v
	}
	if res.Exit == "panic" || res.Exit == "fatal" {
		v.sig, v.msg = "crash-under-fault", fmt.Sprintf("with fault %v the process crashed: %s", spec, exitDesc(res))
		return v
	}
	d := res.Disk
	if d == nil {
		v.err = errNodeHarness{"node returned no disk"}
		return v
	}
	nb, h := fileOf(d, pNotebook), fileOf(d, pHistory)
	fired := 0
	for _, n := range res.Fired {
		fired += n
	}
	check := func(name, got, old, new string) (string, string) {
		switch got {
		case old:
			return "old", ""
		case new:
			return "new", ""
		}
		kind := "mixed"
		if strings.HasPrefix(new, got) && len(got) < len(new) {
			kind = "truncated"
		}
		return kind, fmt.Sprintf("with fault %v (%s) the %s holds %d bytes that are neither the previous content (%d bytes) nor the new content (%d bytes): %s", spec, exitDesc(res), name, len(got), len(old), len(new), kind)
	}
	nbState, msg := check("notebook", nb, oldNB, newNB)
	if msg != "" {
		v.sig, v.msg = "notebook-"+nbState+":"+spec.Kind, msg
		return v
	}
	hState, msg := check("history", h, oldH, newH)
	if msg != "" {
		v.sig, v.msg = "history-"+hState+":"+spec.Kind, msg
		return v
	}
	out := string(res.Stdout)
	if isSave && res.Exit == "exit" {
		success := strings.Contains(out, "saved successfully!")
		if success && nb != newNB {
			v.sig, v.msg = "false-success:"+spec.Kind, fmt.Sprintf("with fault %v save reported success but the notebook does not hold the new content", spec)
			return v
		}
		if !success && nb == oldNB && oldNB != newNB && !strings.Contains(out, "Error") && !strings.Contains(string(res.Stderr), "Error") {
			v.sig, v.msg = "silent-failure:"+spec.Kind, fmt.Sprintf("with fault %v the save did not take effect and no failure was reported; output %q", spec, out)
			return v
		}
	}
	if spec.Then == nil && res.Exit == "exit" && (spec.Kind == "fail" || spec.Kind == "short" || spec.Kind == "quota") {
		for _, ev := range res.Trace {
			if ev.Idx <= spec.At || !(strings.Contains(ev.Path, "cmd-finder") || strings.Contains(ev.Path, ".config/wtf")) {
				continue
			}
			add := func(t FaultSpec) {
				sp := spec
				sp.Then = &t
				v.more = append(v.more, sp)
			}
			switch ev.Op {
			case "write":
				for _, k := range []int{0, 1, ev.N / 2, ev.N - 1} {
					if k >= 0 && k < ev.N {
						add(FaultSpec{Kind: "torn", At: ev.Idx, K: k})
					}
				}
				add(FaultSpec{Kind: "short", At: ev.Idx, K: ev.N / 2, Errno: int(syscall.ENOSPC)})
			case "open-w", "rename", "remove":
				add(FaultSpec{Kind: "kill-after", At: ev.Idx})
				add(FaultSpec{Kind: "fail", At: ev.Idx, Errno: int(syscall.EIO)})
			}
		}
	}
	if spec.Follow || c.Only != nil {
		if sig, msg, err := c.followUp(w, res, tag, spec, newNB, newH); err != nil {
			v.err = err
			return v
		} else if sig != "" {
			v.sig, v.msg = sig, msg
			return v
		}
	}
	st := nbState
	if !isSave {
		st = hState
	}
	v.out = fmt.Sprintf("%s/%s/%s", spec.Kind, res.Exit, st)
	if fired == 0 && spec.Kind != "quota" {
		v.out = spec.Kind + "/not-fired"
	}
	return v
}

// followUp: a leftover of the interrupted process must not damage later writes. A later healthy save and a
// search are run from the disk as the faulted process left it (strays included), from the same disk with the
// strays removed, and from that clean disk with the COMPLETE content the interrupted step was writing in place
// (a tool may finish an interrupted save from a complete leftover; it may not build on a partial one). The
// notebook and the history after the later steps must be what one of the two clean worlds gives.
func (c *C09Case) followUp(w *pworld, res *NodeResult, tag string, spec FaultSpec, newNB, newH string) (sig, msg string, err error) {
	clean := res.Disk.Clone()
	strays := 0
	for p := range res.Disk.Files {
		if !(strings.HasPrefix(p, "/home/u/.config/cmd-finder/") || strings.HasPrefix(p, "/home/u/.config/wtf/")) {
			continue
		}
		if p == pNotebook || p == pHistory || p == res.Disk.ResolveRaw(pNotebook) || p == res.Disk.ResolveRaw(pHistory) || p == w.disk.ResolveRaw(pNotebook) {
			continue // the files themselves, and what a linked notebook points (or pointed) to
		}
		clean.RemoveRaw(p)
		strays++
	}
	if strays == 0 {
		return "", "", nil
	}
	done := clean.Clone()
	if newNB != "" {
		done.WriteRaw(pNotebook, []byte(newNB), 0o644)
	}
	if newH != "" {
		done.WriteRaw(pHistory, []byte(newH), 0o644)
	}
	steps := [][]string{{"save", "--", "zz", "s"}, {"search", "--all-platforms", "-d", pMainDB, "zz"}}
	worlds := []*pworld{{disk: res.Disk.Clone(), clockNS: w.clockNS + int64(time.Hour), sched: w.sched}, {disk: clean, clockNS: w.clockNS + int64(time.Hour), sched: w.sched}, {disk: done, clockNS: w.clockNS + int64(time.Hour), sched: w.sched}}
	for _, args := range steps {
		for wi, pw := range worlds {
			r, e := pw.run(argsOf(args...), nil, nil, tag+string(rune('a'+wi)))
			if e != nil {
				return "", "", e
			}
			if r.Exit != "exit" {
				return "followup-crash", fmt.Sprintf("after fault %v a later `wtf %s` crashed: %s", spec, args[0], exitDesc(r)), nil
			}
		}
		a, b, d := worlds[0], worlds[1], worlds[2]
		for _, f := range []string{pNotebook, pHistory} {
			if got := fileOf(a.disk, f); got != fileOf(b.disk, f) && got != fileOf(d.disk, f) {
				return "leftover-leaks:" + spec.Kind, fmt.Sprintf("after fault %v the interrupted process left %d stray file(s); a later healthy `wtf %s` then wrote %s with %d bytes; it has %d bytes when the strays are removed first and %d bytes when the interrupted step had completed: a leftover of the interrupted process changed what a later healthy run writes", spec, strays, strings.Join(args, " "), f, len(got), len(fileOf(b.disk, f)), len(fileOf(d.disk, f))), nil
			}
		}
	}
	return "", "", nil
}

func TestC09(t *testing.T) { runProperty(t, "C09", genC09, runC09) }
