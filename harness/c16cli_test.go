package harness

// C16, CLI part — process histories of `wtf QUERY`, `wtf search QUERY`, `wtf history`
// and its views, with wall-clock steps (forwards and backwards) and history-file damage
// between processes. The model is the same bounded log with tail-collapse; order is
// insertion order, not timestamp order.

import (
	"encoding/json"
	"fmt"
	"regexp"
	"strconv"
	"strings"
	"time"

	"github.com/Vedant9500/WTF/internal/history"
	"github.com/Vedant9500/WTF/internal/validation"
	"github.com/Vedant9500/WTF/zz_verif/sim/simos"
	"github.com/Vedant9500/WTF/zz_verif/sim/simrt"
	"github.com/Vedant9500/WTF/zz_verif/sim/simtime"
	"pgregory.net/rapid"
)

type C16CLIStep struct {
	Kind    string `json:"k"` // search history top stats limit pattern clear damage handmade
	Q       int    `json:"q,omitempty"`
	Root    bool   `json:"root,omitempty"` // `wtf QUERY` instead of `wtf search QUERY`
	L       int    `json:"l,omitempty"`
	ClockNS int64  `json:"clock_step_ns,omitempty"`
	How     string `json:"how,omitempty"`
	Arg     int    `json:"arg,omitempty"`
	Doc     string `json:"doc,omitempty"`
}

type C16CLI struct {
	Prefill int          `json:"prefill"` // entries already in the file, written by the tool's own library
	Queries []string     `json:"queries"`
	Steps   []C16CLIStep `json:"steps"`
}

func genC16CLI(rt *rapid.T) *C16CLI {
	c := &C16CLI{}
	c.Prefill = rapid.SampledFrom([]int{0, 0, 2, 98, 99, 100}).Draw(rt, "prefill")
	pool := []string{"disk usage", "git commit", "compress files", "Disk Usage", "tar", "list   files", "zzzzqq"}
	nq := rapid.IntRange(1, 4).Draw(rt, "nq")
	for i := 0; i < nq; i++ {
		c.Queries = append(c.Queries, rapid.SampledFrom(pool).Draw(rt, "query"))
	}
	kinds := []string{"search", "search", "search", "search", "history", "top", "stats", "limit", "pattern", "clear", "damage", "handmade"}
	c.Steps = rapid.SliceOfN(rapid.Custom(func(rt *rapid.T) C16CLIStep {
		st := C16CLIStep{Kind: rapid.SampledFrom(kinds).Draw(rt, "kind")}
		st.Q = rapid.IntRange(0, len(c.Queries)-1).Draw(rt, "q")
		st.Root = rapid.Bool().Draw(rt, "root")
		st.L = rapid.SampledFrom([]int{1, 2, 3, 10, 0}).Draw(rt, "l")
		if rapid.IntRange(0, 2).Draw(rt, "clock") == 0 {
			st.ClockNS = rapid.SampledFrom([]int64{int64(time.Minute), int64(26 * time.Hour), -int64(3 * time.Hour), -int64(400 * 24 * time.Hour)}).Draw(rt, "clockstep")
		}
		if st.Kind == "damage" {
			st.How = rapid.SampledFrom([]string{"flip", "truncate", "garbage", "dir", "remove", "empty"}).Draw(rt, "how")
			st.Arg = rapid.IntRange(0, 5000).Draw(rt, "arg")
		}
		if st.Kind == "handmade" {
			st.Doc = rapid.SampledFrom(c16Docs).Draw(rt, "doc")
		}
		return st
	}), 1, tierN(10, 25)).Draw(rt, "steps")
	return c
}

var (
	reRecent = regexp.MustCompile(`^(\d+)\. (.*)$`)
	reTop    = regexp.MustCompile(`^(\d+)\. "(.*)" \((\d+) times, last used: .*\)$`)
)

func runC16CLI(c *C16CLI, o *Outcome) *Outcome {
	w := newPWorld()
	w.disk.WriteRaw(pMainDB, yamlOf([]Cmd{{Command: "du -sh", Description: "disk usage summary", Keywords: []string{"disk", "usage"}}, {Command: "git commit -m", Description: "commit changes", Keywords: []string{"git", "commit"}}, {Command: "tar -czf", Description: "compress files into an archive", Keywords: []string{"compress", "files"}}}), 0o644)
	type ent struct{ q string }
	var m []ent
	if c.Prefill > 0 {
		simtime.Install(time.Unix(0, w.clockNS))
		simos.SetClock(simtime.Now)
		simos.Mount(w.disk, nil)
		simrt.SetOrderCanonical()
		h := history.NewSearchHistory(pHistory, 100)
		for i := 0; i < c.Prefill; i++ {
			q := fmt.Sprintf("older query %d", i)
			h.AddEntry(q, 1, "", time.Millisecond)
			m = append(m, ent{q})
			simtime.Advance(time.Minute)
		}
		_ = h.Save()
		w.clockNS = simtime.NowNS()
		simos.Unmount()
		simtime.Uninstall()
	}
	var log []string
	var digs []string // per-step digests of everything observable (determinism self-test)
	fail := func(sig, f string, a ...any) *Outcome {
		o.Violation = fmt.Sprintf(f, a...) + "\n  steps:\n    " + strings.Join(log, "\n    ")
		o.Sig = "C16/cli-" + sig
		o.Digest = digestOf(log)
		return o
	}
	intact := true    // the file is what the tool itself wrote
	maxInForce := 100 // the CLI's constructor argument; a positive maximum stored in a file the tool adopted replaces it
	var beh []string
	crossed := 0
	for i, st := range c.Steps {
		w.clockNS += st.ClockNS
		var args []string
		switch st.Kind {
		case "search":
			words := strings.Fields(c.Queries[st.Q%len(c.Queries)])
			args = append([]string{"-d", pMainDB}, words...)
			if !st.Root {
				args = append([]string{"search"}, args...)
			}
		case "history":
			args = []string{"history"}
		case "top":
			args = []string{"history", "--top"}
		case "stats":
			args = []string{"history", "--stats"}
		case "limit":
			args = []string{"history", "-l", strconv.Itoa(st.L)}
		case "pattern":
			args = []string{"history", strings.Fields(c.Queries[st.Q%len(c.Queries)])[0]}
		case "clear":
			args = []string{"history", "--clear"}
		case "damage", "handmade":
			b, ok := w.disk.ReadRaw(pHistory)
			switch {
			case st.Kind == "handmade":
				w.disk.RemoveRaw(pHistory)
				w.disk.WriteRaw(pHistory, []byte(st.Doc), 0o644)
			case st.How == "remove":
				w.disk.RemoveRaw(pHistory)
			case st.How == "dir":
				w.disk.RemoveRaw(pHistory)
				w.disk.MkdirAllRaw(pHistory, 0o755)
			case st.How == "empty":
				w.disk.WriteRaw(pHistory, nil, 0o644)
			case st.How == "garbage":
				w.disk.WriteRaw(pHistory, []byte("\x00\x01{{{"), 0o644)
			case ok && len(b) > 0:
				nb := append([]byte(nil), b...)
				if st.How == "flip" {
					j := st.Arg % (8 * len(nb))
					nb[j/8] ^= 1 << uint(j%8)
				} else {
					nb = nb[:st.Arg%len(nb)]
				}
				w.disk.WriteRaw(pHistory, nb, 0o644)
			}
			intact = false
			log = append(log, fmt.Sprintf("[%s %s %s]", st.Kind, st.How, st.Doc))
			beh = append(beh, "d")
			continue
		}
		res, err := w.run(argsOf(args...), nil, nil, "s")
		if err != nil {
			o.Harness = err.Error()
			return o
		}
		log = append(log, fmt.Sprintf("%s -> %s", quoteArgs(argsOf(args...)), exitDesc(res)))
		digs = append(digs, stepDigest(res))
		if res.Exit != "exit" {
			return fail("crash:"+st.Kind, "step %d: %s crashed: %s", i, args[0], exitDesc(res))
		}
		out := string(res.Stdout)
		// the file after the step
		var doc struct {
			Entries []struct {
				Query string `json:"query"`
			} `json:"entries"`
			MaxSize int `json:"max_size"`
		}
		hb, hasFile := w.disk.ReadRaw(pHistory)
		parsed := hasFile && json.Unmarshal(hb, &doc) == nil
		switch st.Kind {
		case "search":
			q, verr := validation.ValidateQuery(c.Queries[st.Q%len(c.Queries)])
			if verr != nil {
				continue
			}
			if !parsed {
				if _, isDir := w.disk.Files[pHistory]; isDir && w.disk.Files[pHistory].IsDir() {
					beh = append(beh, "x")
					continue // a directory sits where the file should be: nothing can be recorded
				}
				return fail("not-recorded", "step %d: after a search the history file is missing or does not parse", i)
			}
			if len(doc.Entries) == 0 || doc.Entries[len(doc.Entries)-1].Query != q {
				return fail("not-recorded", "step %d: after searching %q the newest history entry is not that search (%d entries in the file)", i, q, len(doc.Entries))
			}
			if intact {
				if len(m) > 0 && m[len(m)-1].q == q {
					// collapsed
				} else {
					m = append(m, ent{q})
					if len(m) > maxInForce {
						m = m[len(m)-maxInForce:]
						crossed++
					}
				}
				if len(doc.Entries) != len(m) {
					return fail("log-mismatch", "step %d: the history file holds %d entries, expected %d (bounded log with collapse of an immediate repeat)", i, len(doc.Entries), len(m))
				}
				for k := range m {
					if doc.Entries[k].Query != m[k].q {
						return fail("log-mismatch", "step %d: history entry %d is %q, expected %q (insertion order)", i, k, doc.Entries[k].Query, m[k].q)
					}
				}
			} else {
				// after damage: follow what the tool made of it; from here on the file is its own again
				m = m[:0]
				for _, e := range doc.Entries {
					m = append(m, ent{e.Query})
				}
				intact = true
				if doc.MaxSize > 0 {
					maxInForce = doc.MaxSize
				}
			}
			if doc.MaxSize <= 0 {
				return fail("bound", "step %d: the tool wrote a history file whose maximum is %d", i, doc.MaxSize)
			}
			if len(doc.Entries) > maxInForce {
				return fail("bound", "step %d: the history file holds %d entries, the maximum in force is %d", i, len(doc.Entries), maxInForce)
			}
			beh = append(beh, "s")
		case "clear":
			if strings.Contains(out, "cleared successfully") {
				m = m[:0]
				intact = true
				if parsed && doc.MaxSize > 0 {
					maxInForce = doc.MaxSize // --clear loads the file first and so adopts a positive stored maximum
				}
				if !parsed || len(doc.Entries) != 0 {
					return fail("clear", "step %d: history --clear reported success but the file still holds entries", i)
				}
			}
			beh = append(beh, "c")
		case "history", "limit":
			if !intact {
				beh = append(beh, "h?")
				continue
			}
			limit := 10
			if st.Kind == "limit" {
				limit = st.L
				if limit <= 0 {
					limit = 10
				}
			}
			var want []string
			seen := map[string]bool{}
			for k := len(m) - 1; k >= 0 && len(want) < limit; k-- {
				if !seen[m[k].q] {
					seen[m[k].q] = true
					want = append(want, m[k].q)
				}
			}
			var got []string
			in := false
			for _, l := range strings.Split(out, "\n") {
				if strings.HasPrefix(l, "=====") {
					in = true
					continue
				}
				if in {
					if mm := reRecent.FindStringSubmatch(l); mm != nil {
						got = append(got, mm[2])
					} else if l == "" {
						break
					}
				}
			}
			if strings.Join(got, "\x00") != strings.Join(want, "\x00") {
				return fail("recent-view", "step %d: `wtf %s` lists %q, the log's distinct queries newest first are %q", i, strings.Join(args, " "), got, want)
			}
			beh = append(beh, "h")
		case "top":
			if !intact {
				continue
			}
			count := map[string]int{}
			for _, e := range m {
				count[e.q]++
			}
			sum, n := 0, 0
			for _, l := range strings.Split(out, "\n") {
				if mm := reTop.FindStringSubmatch(l); mm != nil {
					k, _ := strconv.Atoi(mm[3])
					if count[mm[2]] != k {
						return fail("top-view", "step %d: history --top says %q was searched %d times, the log holds it %d times", i, mm[2], k, count[mm[2]])
					}
					sum += k
					n++
				}
			}
			wantN := len(count)
			if wantN > 10 {
				wantN = 10
			}
			if n != wantN {
				return fail("top-view", "step %d: history --top lists %d queries, expected %d", i, n, wantN)
			}
			if len(count) <= 10 && sum != len(m) {
				return fail("top-view", "step %d: frequencies sum to %d, the log has %d entries", i, sum, len(m))
			}
			beh = append(beh, "t")
		case "stats":
			if !intact || len(m) == 0 {
				continue
			}
			uniq := map[string]bool{}
			for _, e := range m {
				uniq[e.q] = true
			}
			if !strings.Contains(out, fmt.Sprintf("Total searches: %d\n", len(m))) || !strings.Contains(out, fmt.Sprintf("Unique queries: %d\n", len(uniq))) {
				return fail("stats-view", "step %d: history --stats does not report %d searches / %d unique queries: %q", i, len(m), len(uniq), tailStr(out, 300))
			}
			beh = append(beh, "S")
		}
	}
	o.Probes["c16cli.bound_crossed"] = crossed
	o.Probes["c16cli.cases"] = 1
	o.Evals = w.steps
	o.NonTrivial = w.steps > 1
	o.Behaviour = fmt.Sprintf("cli pre=%d %s", c.Prefill, strings.Join(beh, ""))
	o.Digest = digestOf([]any{log, digs})
	return o
}
