package harness

// Shared generators: command databases drawn from a small vocabulary (so ties,
// duplicates and shared words are common), queries, option sets.

import (
	"fmt"
	"math"
	"reflect"
	"strings"
	"unsafe"

	"github.com/Vedant9500/WTF/internal/database"
	"gopkg.in/yaml.v3"
	"pgregory.net/rapid"
)

// Cmd is the serialisable form of a database entry.
type Cmd struct {
	Command     string   `json:"c"`
	Description string   `json:"d,omitempty"`
	Keywords    []string `json:"k,omitempty"`
	Tags        []string `json:"t,omitempty"`
	Niche       string   `json:"n,omitempty"`
	Platform    []string `json:"p,omitempty"`
	Pipeline    bool     `json:"pl,omitempty"`
}

func (c Cmd) toDB() database.Command {
	return database.Command{Command: c.Command, Description: c.Description, Keywords: c.Keywords, Tags: c.Tags,
		Niche: c.Niche, Platform: c.Platform, Pipeline: c.Pipeline}
}

func cmdsToDB(cs []Cmd) []database.Command {
	out := make([]database.Command, len(cs))
	for i, c := range cs {
		out[i] = c.toDB()
	}
	return out
}

// populated mimics what the loader does after decoding (lower-cased copies).
func cmdsToDBPopulated(cs []Cmd) []database.Command {
	out := cmdsToDB(cs)
	for i := range out {
		out[i].CommandLower = strings.ToLower(out[i].Command)
		out[i].DescriptionLower = strings.ToLower(out[i].Description)
		out[i].KeywordsLower = make([]string, len(out[i].Keywords))
		for j, k := range out[i].Keywords {
			out[i].KeywordsLower[j] = strings.ToLower(k)
		}
		out[i].TagsLower = make([]string, len(out[i].Tags))
		for j, k := range out[i].Tags {
			out[i].TagsLower[j] = strings.ToLower(k)
		}
	}
	return out
}

func yamlOf(cs []Cmd) []byte {
	b, err := yaml.Marshal(cmdsToDB(cs))
	if err != nil {
		panic(err)
	}
	return b
}

var vocab = []string{
	"tar", "zip", "compress", "archive", "file", "files", "disk", "usage", "git", "commit",
	"list", "find", "search", "docker", "copy", "move", "delete", "create", "network", "process",
	"directory", "extract", "show", "size", "folder", "remove", "install", "package", "server", "log",
	// equal-length siblings: they tie in fuzzy ranking for a shared misspelling
	"archived", "archiver", "packaged", "packages",
	// words the NLP layer treats specially: synonyms listed under several head words, actions, targets
	"unzip", "gunzip", "untar", "expand", "decompress", "unpack", "make", "build", "generate", "compile", "data", "content",
	"config", "interface", "address", "transfer", "upload", "download", "view", "display", "read", "cat", "locate", "backup", "task", "job", "running",
}

var tools = []string{"tar", "zip", "git", "docker", "find", "grep", "du", "df", "ls", "cp", "mv", "rm", "qm", "npm", "curl", "kubectl"}

var platforms = []string{"linux", "macos", "windows", "cross-platform", "Darwin", "unix", "powershell"}

func genWord(rt *rapid.T, label string) string {
	return rapid.SampledFrom(vocab).Draw(rt, label)
}

// genCmd draws one entry; texts are built from the shared vocabulary with occasional
// case changes, punctuation and non-ASCII words.
func genCmd(rt *rapid.T) Cmd {
	var c Cmd
	if rapid.IntRange(0, 29).Draw(rt, "stub") == 15 {
		// an entry without any searchable text (placeholders, separators, one-letter words, stop words)
		c.Command = rapid.SampledFrom([]string{"-", "?", "--", "x", "", "the", "# ---"}).Draw(rt, "stubcmd")
		c.Description = rapid.SampledFrom([]string{"", "", "...", "a", "to the"}).Draw(rt, "stubdesc")
		return c
	}
	tool := rapid.SampledFrom(tools).Draw(rt, "tool")
	nw := rapid.IntRange(0, 3).Draw(rt, "cw")
	parts := []string{tool}
	for i := 0; i < nw; i++ {
		w := genWord(rt, "cword")
		switch rapid.IntRange(0, 9).Draw(rt, "cform") {
		case 0:
			w = "-" + w
		case 1:
			w = "--" + w + "=x"
		case 2:
			w = strings.ToUpper(w)
		case 3:
			w = "<" + w + ">"
		}
		parts = append(parts, w)
	}
	c.Command = strings.Join(parts, " ")
	if rapid.IntRange(0, 11).Draw(rt, "pipe") == 0 {
		c.Command += " | " + rapid.SampledFrom(tools).Draw(rt, "tool2") + " " + genWord(rt, "cword")
	}
	nd := rapid.IntRange(0, 6).Draw(rt, "dw")
	var d []string
	for i := 0; i < nd; i++ {
		w := genWord(rt, "dword")
		switch rapid.IntRange(0, 14).Draw(rt, "dform") {
		case 0:
			w = strings.Title(w)
		case 1:
			w = w + ","
		case 2:
			w = "the"
		case 3:
			w = "größe"
		case 4:
			w = w + "-" + genWord(rt, "dword2")
		}
		d = append(d, w)
	}
	c.Description = strings.Join(d, " ")
	if rapid.IntRange(0, 59).Draw(rt, "pasted") == 30 {
		// a pasted log: one word hundreds of times in one field (counters narrower than int wrap at 256 / 65536)
		c.Description += " " + strings.TrimSpace(strings.Repeat(genWord(rt, "pword")+" ", rapid.SampledFrom([]int{255, 256, 300, 520}).Draw(rt, "pn")))
	}
	nk := rapid.IntRange(0, 3).Draw(rt, "kw")
	for i := 0; i < nk; i++ {
		w := genWord(rt, "kword")
		if rapid.IntRange(0, 5).Draw(rt, "kform") == 0 {
			w = w + " " + genWord(rt, "kword2")
		}
		c.Keywords = append(c.Keywords, w)
	}
	nt := rapid.IntRange(0, 2).Draw(rt, "tg")
	for i := 0; i < nt; i++ {
		c.Tags = append(c.Tags, genWord(rt, "tword"))
	}
	if rapid.IntRange(0, 3).Draw(rt, "hasniche") == 0 {
		c.Niche = genWord(rt, "niche")
	}
	np := rapid.SampledFrom([]int{0, 0, 0, 1, 1, 2}).Draw(rt, "np")
	for i := 0; i < np; i++ {
		c.Platform = append(c.Platform, rapid.SampledFrom(platforms).Draw(rt, "platform"))
	}
	c.Pipeline = rapid.IntRange(0, 7).Draw(rt, "pl") == 0
	return c
}

// genDB draws 0..max entries; about a third of the entries are near-copies of an
// earlier entry (same searchable words), so equal scores are common.
func genDB(rt *rapid.T, max int) []Cmd {
	raw := rapid.SliceOfN(rapid.Custom(genCmd), 0, max).Draw(rt, "db")
	twins := rapid.SliceOfN(rapid.IntRange(0, 5), len(raw), len(raw)).Draw(rt, "twins")
	out := make([]Cmd, len(raw))
	for i, c := range raw {
		if i > 0 && twins[i] <= 1 {
			src := out[(i*7+twins[i])%i]
			c = src
			c.Keywords = append([]string(nil), src.Keywords...)
			c.Tags = append([]string(nil), src.Tags...)
			c.Platform = append([]string(nil), src.Platform...)
			if twins[i] == 0 {
				// same tokens, different text: a tie that only a fixed rule can order
				c.Command = strings.Replace(src.Command, " ", "  ", 1)
				if c.Command == src.Command {
					c.Command = src.Command + " "
				}
			}
		}
		out[i] = c
	}
	return out
}

// swarmKinds: swarm-style variation of the operation mix. In half of the cases every distinct kind of the
// weighted list is dropped with probability 1/3 (the kinds in keep always stay), so that some cases are
// dense in a few kinds of operation instead of always using the whole alphabet.
func swarmKinds(rt *rapid.T, kinds []string, keep ...string) []string {
	if rapid.Bool().Draw(rt, "swarm-all") {
		return kinds
	}
	var distinct []string
	seen := map[string]bool{}
	for _, k := range kinds {
		if !seen[k] {
			seen[k] = true
			distinct = append(distinct, k)
		}
	}
	drop := map[string]bool{}
	flags := rapid.SliceOfN(rapid.IntRange(0, 2), len(distinct), len(distinct)).Draw(rt, "swarm-drop")
	for i, k := range distinct {
		if flags[i] == 0 {
			drop[k] = true
		}
	}
	for _, k := range keep {
		delete(drop, k)
	}
	var out []string
	for _, k := range kinds {
		if !drop[k] {
			out = append(out, k)
		}
	}
	if len(out) == 0 {
		return kinds
	}
	return out
}

func misspell(w string, how int) string {
	if len(w) < 4 {
		return w
	}
	switch how % 3 {
	case 0:
		return w[:2] + w[3:] // drop a letter
	case 1:
		return w[:1] + w[2:] // drop second
	default:
		return w[:len(w)-1]
	}
}

// genQuery draws a query of 1..n vocabulary words, some misspelled.
func genQuery(rt *rapid.T, maxWords int) string {
	n := rapid.IntRange(1, maxWords).Draw(rt, "qn")
	var ws []string
	for i := 0; i < n; i++ {
		w := genWord(rt, "qword")
		switch rapid.IntRange(0, 11).Draw(rt, "qform") {
		case 0:
			w = misspell(w, i)
		case 1:
			w = rapid.SampledFrom(tools).Draw(rt, "qtool")
		case 2:
			w = rapid.SampledFrom([]string{"how", "to", "the", "all", "my", "with"}).Draw(rt, "qstop")
		}
		ws = append(ws, w)
	}
	if rapid.IntRange(0, 39).Draw(rt, "qpad") == 20 {
		// a long-winded request: more than 1000 bytes, yet the same few content words (only the command line's
		// validator bounds the length; the engine's entry points take any string)
		pad := strings.TrimSpace(strings.Repeat(rapid.SampledFrom([]string{"the and of ", "to   a ", "--- , . ", "how to the "}).Draw(rt, "qpadw"), 130))
		at := rapid.IntRange(0, len(ws)).Draw(rt, "qpadat")
		ws = append(ws[:at:at], append([]string{pad}, ws[at:]...)...)
	}
	return strings.Join(ws, " ")
}

// Opts is the serialisable form of database.SearchOptions.
type Opts struct {
	Limit           int                `json:"limit"`
	ContextBoosts   map[string]float64 `json:"boosts,omitempty"`
	PipelineOnly    bool               `json:"ponly,omitempty"`
	PipelineBoost   float64            `json:"pboost,omitempty"`
	UseFuzzy        bool               `json:"fuzzy,omitempty"`
	FuzzyThreshold  int                `json:"fthr,omitempty"`
	UseNLP          bool               `json:"nlp,omitempty"`
	TopTermsCap     int                `json:"cap,omitempty"`
	AllPlatforms    bool               `json:"allp,omitempty"`
	Platforms       []string           `json:"plats,omitempty"`
	NoCrossPlatform bool               `json:"nocross,omitempty"`
	// NonFinite: factors that JSON cannot carry: "pboost" or "boost:<word>" -> "+Inf" | "-Inf" | "NaN" (applied by toDB)
	NonFinite map[string]string `json:"non_finite,omitempty"`
}

func (o Opts) toDB() database.SearchOptions {
	var boosts map[string]float64
	if o.ContextBoosts != nil {
		boosts = make(map[string]float64, len(o.ContextBoosts))
		for k, v := range o.ContextBoosts {
			boosts[k] = v
		}
	}
	pboost := o.PipelineBoost
	nf := func(s string) float64 {
		switch s {
		case "+Inf":
			return math.Inf(1)
		case "-Inf":
			return math.Inf(-1)
		}
		return math.NaN()
	}
	for k, v := range o.NonFinite {
		if k == "pboost" {
			pboost = nf(v)
		} else if strings.HasPrefix(k, "boost:") {
			if boosts == nil {
				boosts = map[string]float64{}
			}
			boosts[strings.TrimPrefix(k, "boost:")] = nf(v)
		}
	}
	return database.SearchOptions{Limit: o.Limit, ContextBoosts: boosts, PipelineOnly: o.PipelineOnly, PipelineBoost: pboost,
		UseFuzzy: o.UseFuzzy, FuzzyThreshold: o.FuzzyThreshold, UseNLP: o.UseNLP, TopTermsCap: o.TopTermsCap, AllPlatforms: o.AllPlatforms,
		Platforms: append([]string(nil), o.Platforms...), NoCrossPlatform: o.NoCrossPlatform}
}

var optFields = []string{"limit", "boosts", "ponly", "pboost", "fuzzy", "fthr", "nlp", "cap", "allp", "plats", "nocross"}

func genOpts(rt *rapid.T) Opts {
	var o Opts
	o.Limit = rapid.SampledFrom([]int{0, 1, 2, 3, 5, 50, 50, 101, 1000}).Draw(rt, "limit")
	o.UseNLP = rapid.Bool().Draw(rt, "nlp")
	o.UseFuzzy = rapid.Bool().Draw(rt, "fuzzy")
	o.AllPlatforms = rapid.Bool().Draw(rt, "allp")
	for _, f := range optFields {
		if rapid.IntRange(0, 5).Draw(rt, "set-"+f) == 0 {
			o = mutateOpt(rt, o, f)
		}
	}
	return o
}

// blowUp cycles the entries up to n (a counter word keeps them distinct): sizes beyond the round numbers code likes
// to use as caps, batch sizes and "small enough" thresholds (100, 1000, ...).
func blowUp(base []Cmd, n int) []Cmd {
	if len(base) == 0 {
		return base
	}
	big := make([]Cmd, 0, n)
	for i := 0; len(big) < n; i++ {
		e := base[i%len(base)]
		e.Description = fmt.Sprintf("%s n%d", e.Description, i)
		big = append(big, e)
	}
	return big
}

// entangleBoosts gives the options a boost table of several keys that overlap: words of the query, compound keys
// (script / make-target names such as "docker-build", "test:unit") whose parts are other keys, case variants. Any
// rule that derives one table entry from several keys meets a collision here, and the table is a map.
func entangleBoosts(rt *rapid.T, o Opts, query string) Opts {
	nb := map[string]float64{}
	for k, v := range o.ContextBoosts {
		nb[k] = v
	}
	words := strings.Fields(strings.ToLower(query))
	if len(words) == 0 {
		words = []string{genWord(rt, "eword")}
	}
	vals := []float64{1.3, 1.5, 2, 3, 0.5, 1.0585, 2.5}
	n := rapid.IntRange(2, 5).Draw(rt, "en")
	for i := 0; i < n; i++ {
		w := rapid.SampledFrom(words).Draw(rt, "ew")
		other := genWord(rt, "eother")
		var k string
		switch rapid.IntRange(0, 6).Draw(rt, "eform") {
		case 0, 1:
			k = w
		case 2:
			k = w + "-" + other
		case 3:
			k = other + ":" + w
		case 4:
			k = w + "_" + other
		case 5:
			k = strings.ToUpper(w[:1]) + w[1:]
		default:
			k = other
		}
		nb[k] = vals[(i+rapid.IntRange(0, len(vals)-1).Draw(rt, "ev"))%len(vals)]
	}
	o.ContextBoosts = nb
	return o
}

// mutateOpt returns o with exactly one field changed.
func mutateOpt(rt *rapid.T, o Opts, field string) Opts {
	switch field {
	case "limit":
		o.Limit = rapid.SampledFrom([]int{-1, 0, 1, 2, 3, 5, 10, 50, 100, 101, 150, 1000, 5000}).Filter(func(v int) bool { return v != o.Limit }).Draw(rt, "limit2")
	case "boosts":
		nb := map[string]float64{}
		for k, v := range o.ContextBoosts {
			nb[k] = v
		}
		w := genWord(rt, "bword")
		f := rapid.SampledFrom([]float64{1.5, 2, 3, 1.504, 1.496, 0.5, 1.0585, 1.0595}).Draw(rt, "bfac")
		if nb[w] == f {
			f += 0.25
		}
		nb[w] = f
		o.ContextBoosts = nb
	case "ponly":
		o.PipelineOnly = !o.PipelineOnly
	case "pboost":
		o.PipelineBoost = rapid.SampledFrom([]float64{0, 1.5, 2, 0.5, 1.504, 1.4999999}).Filter(func(v float64) bool { return v != o.PipelineBoost }).Draw(rt, "pboost2")
	case "fuzzy":
		o.UseFuzzy = !o.UseFuzzy
	case "fthr":
		o.FuzzyThreshold = rapid.SampledFrom([]int{0, -200, -50, -10, 5, 40}).Filter(func(v int) bool { return v != o.FuzzyThreshold }).Draw(rt, "fthr2")
	case "nlp":
		o.UseNLP = !o.UseNLP
	case "cap":
		o.TopTermsCap = rapid.SampledFrom([]int{0, 1, 2, 3, 5}).Filter(func(v int) bool { return v != o.TopTermsCap }).Draw(rt, "cap2")
	case "allp":
		o.AllPlatforms = !o.AllPlatforms
	case "plats":
		p := rapid.SampledFrom(platforms).Draw(rt, "plat2")
		o.Platforms = append(append([]string(nil), o.Platforms...), p)
	case "nocross":
		o.NoCrossPlatform = !o.NoCrossPlatform
	}
	return o
}

// Res is one element of a result list in comparable form.
type Res struct {
	Command string `json:"c"`
	Desc    string `json:"d"`
	Bits    uint64 `json:"s"`
}

func resOf(rs []database.SearchResult) []Res {
	out := make([]Res, len(rs))
	for i, r := range rs {
		if r.Command == nil {
			out[i] = Res{Command: "<nil>", Bits: math.Float64bits(r.Score)}
			continue
		}
		out[i] = Res{Command: r.Command.Command, Desc: r.Command.Description + "\x00" + strings.Join(r.Command.Keywords, ",") + "\x00" + strings.Join(r.Command.Platform, ","), Bits: math.Float64bits(r.Score)}
	}
	return out
}

func resEqual(a, b []Res) bool {
	if len(a) != len(b) {
		return false
	}
	for i := range a {
		if a[i] != b[i] {
			return false
		}
	}
	return true
}

func resString(rs []Res) string {
	var sb strings.Builder
	sb.WriteString("[")
	for i, r := range rs {
		if i > 0 {
			sb.WriteString(", ")
		}
		fmt.Fprintf(&sb, "%q:%v", r.Command, math.Float64frombits(r.Bits))
	}
	sb.WriteString("]")
	return sb.String()
}

// fieldByType returns a pointer to the first field of struct *obj whose type is t
// (searching embedded/pointer-embedded structs one level per step), so the harness
// reaches private plumbing without depending on field names.
func fieldByType(obj any, t reflect.Type) unsafe.Pointer {
	v := reflect.ValueOf(obj)
	if v.Kind() != reflect.Pointer || v.Elem().Kind() != reflect.Struct {
		return nil
	}
	return fieldByTypeV(v.Elem(), t, 3)
}

func fieldByTypeV(s reflect.Value, t reflect.Type, depth int) unsafe.Pointer {
	for i := 0; i < s.NumField(); i++ {
		f := s.Field(i)
		if f.Type() == t {
			return unsafe.Pointer(f.UnsafeAddr())
		}
	}
	if depth == 0 {
		return nil
	}
	for i := 0; i < s.NumField(); i++ {
		f := s.Field(i)
		if f.Kind() == reflect.Pointer && !f.IsNil() && f.Type().Elem().Kind() == reflect.Struct {
			if p := fieldByTypeV(f.Elem(), t, depth-1); p != nil {
				return p
			}
		} else if f.Kind() == reflect.Struct {
			if p := fieldByTypeV(f, t, depth-1); p != nil {
				return p
			}
		}
	}
	return nil
}

// escapeLookalikes: text that LOOKS like the escapes of an output format (JSON, HTML, printf, templates, terminal) but
// is plain data: any output stage that post-processes its own escapes by text replacement corrupts these.
var escapeLookalikes = []string{"printf '\\u003c'", "sed 's/\\u0026/and/'", "echo \\u003e out", "a &lt;b&gt; &amp; c", "100%s done %d", "\\n literal", "say \\\"hi\\\"", "{{.Name}} ${HOME}", "\\x1b[0m", "tab\\there", "back\\\\slash", "%!s(MISSING)", "&#60;tag&#62;"}

// genWideText: multi-byte text whose byte length is well above its character count (byte-indexed
// truncation and column logic go wrong on such strings).
var wideTexts = []string{"設定ファイルを圧縮して保存するコマンドです", "архивировать каталог с файлами журнала", "größenänderungsübersichtsprüfung äöü ßßß", "ファイル検索", "каталог"}
