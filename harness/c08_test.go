package harness

// C08 — a saved command is stored faithfully, keeps its neighbours, is searchable.
// World P: histories of `wtf save` / `wtf save-pipeline` / re-save / `wtf search`
// processes over one simulated home directory, starting from a missing, empty,
// populated, hand-written or broken notebook; arguments are biased to YAML-significant
// and otherwise awkward text. The model is an ordered list of entries.

import (
	"path/filepath"
	"encoding/json"
	"fmt"
	"strconv"
	"strings"
	"testing"

	"github.com/Vedant9500/WTF/internal/database"
	"github.com/Vedant9500/WTF/zz_verif/sim/simos"
	"pgregory.net/rapid"
)

type C08Step struct {
	Kind     string   `json:"k"`                  // save savepipe resave search
	Command  string   `json:"command,omitempty"`  // Go-quoted
	Desc     string   `json:"desc,omitempty"`     // Go-quoted
	Name     string   `json:"name,omitempty"`     // Go-quoted (save-pipeline)
	Keywords []string `json:"keywords,omitempty"` // Go-quoted
	Category string   `json:"category,omitempty"` // Go-quoted
	Plats    []string `json:"platforms,omitempty"`
	Pipeline bool     `json:"pipeline,omitempty"`
	HasDesc  bool     `json:"has_desc,omitempty"`
	HasCat   bool     `json:"has_cat,omitempty"`
	Target   int      `json:"target,omitempty"` // resave / search: index into the model (mod length)
	Short    bool     `json:"short_flags,omitempty"`
	// Respell (re-save only): keep everything of the stored entry but change how the keyword / platform
	// lists are split (each multi-word item becomes several items, or all items become one): the lists
	// differ although their words are the same
	Respell int `json:"respell,omitempty"` // 0 no, 1 split items on spaces, 2 join items with a space
	// Cwd: the directory the command is run from (index into c08Cwds): where the user happens to stand must not matter
	Cwd int `json:"cwd,omitempty"`
}

var c08Cwds = []string{"/home/u/work", "/home/u/work", "/home/u", "/tmp/elsewhere"}

type C08Case struct {
	Sched    []uint16  `json:"sched,omitempty"` // schedule vector of every process of the case (goroutines / channels / select inside the tool)
	Main     []Cmd     `json:"main"`
	Notebook string    `json:"notebook"` // missing empty populated handwritten malformed
	Initial  []Cmd     `json:"initial,omitempty"`
	Steps    []C08Step `json:"steps"`
	// Shape (notebook "shaped"): the initial entries written in another valid YAML layout than the tool's own -
	// what a notebook looks like after its owner edited it or generated it with another program
	Shape string `json:"shape,omitempty"`
	// Strays: files with the notebook's / history's names in places the tool has no business with (the working
	// directory, sibling configuration directories); the tool must neither read nor write them
	Strays []string `json:"strays,omitempty"`
	// Leftovers: files beside the notebook that an earlier, killed save (of this or an older version of the tool, or an
	// editor) left behind: temporary names, backups. Each holds a long, complete-looking notebook. Whatever the tool does
	// with such names, none of their bytes may end up in the notebook
	Leftovers []string `json:"leftovers,omitempty"`
	// Link: the notebook path is a symbolic link to the real file ("rel": link text relative to the link's directory,
	// "abs": absolute), as dotfile managers set things up
	Link string `json:"notebook_is_link,omitempty"`
}

var c08Shapes = []string{"indented", "flow", "nofinalnl", "blocklast", "crlf", "docmarker", "comments"}

var c08LeftoverNames = []string{"personal.yml.tmp", "personal.yml.tmp-100001", "personal.yml.tmp-100002", "personal.yml~", "personal.yml.new", "personal.yml.bak", ".personal.yml.swp", "personal.yml.lock"}

var c08StrayPaths = []string{"/home/u/work/personal.yml", "/home/u/.config/wtf/personal.yml", "/home/u/personal.yml", "/home/u/work/commands.yml", "/home/u/.config/cmd-finder/personal.yaml", "/home/u/work/search_history.json", "/home/u/.config/cmd-finder/search_history.json"}

// shapeNotebook renders entries in a layout yaml.v3 would not have produced itself.
func shapeNotebook(cs []Cmd, shape string) []byte {
	std := string(yamlOf(cs))
	switch shape {
	case "indented":
		return []byte("  " + strings.ReplaceAll(strings.TrimSuffix(std, "\n"), "\n", "\n  ") + "\n")
	case "flow":
		var items []map[string]any
		for _, c := range cmdsToDB(cs) {
			m := map[string]any{"command": c.Command, "description": c.Description, "keywords": c.Keywords, "pipeline": c.Pipeline}
			if c.Niche != "" {
				m["niche"] = c.Niche
			}
			if len(c.Platform) > 0 {
				m["platform"] = c.Platform
			}
			if len(c.Tags) > 0 {
				m["tags"] = c.Tags
			}
			items = append(items, m)
		}
		b, _ := json.Marshal(items)
		return b
	case "nofinalnl":
		return []byte(strings.TrimSuffix(std, "\n"))
	case "blocklast":
		// the last entry ends in a literal block scalar and the file has no final line break
		return []byte(std + "- command: zz-last\n  keywords: []\n  pipeline: false\n  description: |-\n    free\n    space")
	case "crlf":
		return []byte(strings.ReplaceAll(std, "\n", "\r\n"))
	case "docmarker":
		return []byte("---\n" + std + "...\n")
	case "comments":
		return []byte("# my notebook\n\n" + strings.ReplaceAll(std, "\n- ", "\n\n# next\n- ") + "# end\n")
	}
	return []byte(std)
}

var awkward = []string{
	"- leading dash", "? question", ": colon", "key: value", "trailing colon:", "a #comment", "#hash", "'single'", "\"double\"",
	"docker ps --format 'table {{.Names}}\t{{.Status}}'", "{a: b}", "[1, 2]", "null", "~", "true", "no", "123", "1.5e3", "0x1F", "0o17",
	" lead space", "trail space ", "multi\nline", "tab\there", "ctrl\x01\x02x", "esc\x1b[31mred", "nel\u0085x", "nbsp\u00a0x", "ls\u2028x", "bom\ufeffx",
	"bad\xffutf8", "\xc3\x28", "", " ", "|", ">", "> folded", "| literal", "!!binary aGk=", "&anchor x", "*alias", "%directive", "@at", "`tick`",
	"a: b: c", "- ", "---", "...", "\tstart tab", "cr\r\nlf", "é", "日本語 ファイル", "emoji 😀", "back\\slash", "quote\"inside", "it's", "2026-01-01", "12:30:45",
	"\nleading newline", "\n- ]", "\n\nx", "\n", "\t\nx", "\n  indented", "\n#c", " \n", "x\n\n", "\r", "\n\t",
	"=", "<<", strings.Repeat("設", 20), strings.Repeat("ж", 30) + " tar", strings.Repeat("é", 26), "find . -name '*.go' -exec gofmt -w {} \\;", "awk '{print \"Lines:\" $1}'", strings.Repeat("long", 300), "y", "Off", ".inf", "-.5", "\"", "'", "\\",
}

// yamlRunes: every rune the YAML scanner, the emitter's style choice, JSON or a terminal treats specially; composed
// strings over this alphabet reach style decisions no fixed sample anticipates (D12: first rune a line break; D13: first rune
// U+2028 / U+2029, which YAML counts as line breaks too).
var yamlRunes = []rune{'a', 'b', ' ', '\n', '\r', '\t', 0x2028, 0x2029, 0x85, 0xA0, 0xFEFF, ':', '#', '-', '?', '|', '>', '"', '\'', '\\', '[', ']', '{', '}', ',', '&', '*', '!', '%', '@', '`', '~', '=', '<', 0x7f, 0x1b, 0xFFFD, 0xE9, 0x1F600}

func genComposed(rt *rapid.T, label string) string {
	n := rapid.IntRange(1, 6).Draw(rt, label+"-n")
	var sb strings.Builder
	for i := 0; i < n; i++ {
		sb.WriteRune(rapid.SampledFrom(yamlRunes).Draw(rt, label+"-r"))
	}
	return sb.String()
}

func genText(rt *rapid.T, label string) string {
	if rapid.IntRange(0, 79).Draw(rt, label+"-huge") == 40 {
		// close to what one argv element can carry (128 KiB on Linux): buffered line readers give up at 64 KiB
		return genWord(rt, label+"-w1") + " " + strings.Repeat("x", rapid.SampledFrom([]int{65535, 65536, 70000, 120000}).Draw(rt, label+"-hugelen"))
	}
	switch rapid.IntRange(0, 7).Draw(rt, label+"-shape") {
	case 0:
		return rapid.SampledFrom(awkward).Draw(rt, label+"-awk")
	case 6:
		return genComposed(rt, label+"-comp")
	case 7:
		return genComposed(rt, label+"-comp") + genWord(rt, label+"-w1") + genComposed(rt, label+"-comp2")
	case 1:
		return genWord(rt, label+"-w1") + " " + rapid.SampledFrom(awkward).Draw(rt, label+"-awk")
	case 2:
		return rapid.SampledFrom(awkward).Draw(rt, label+"-awk") + " " + genWord(rt, label+"-w1")
	case 3:
		return rapid.SampledFrom(tools).Draw(rt, label+"-tool") + " " + genWord(rt, label+"-w1") + " " + genWord(rt, label+"-w2")
	default:
		return genWord(rt, label+"-w1") + " " + genWord(rt, label+"-w2")
	}
}

// values that go through pflag's comma-separated list parser: no ',' '"' CR LF
func genListValue(rt *rapid.T, label string) string {
	v := rapid.SampledFrom([]string{"backup", "- dash", "key: v", "#x", "null", "true", "12", " sp ", "tab\tx", "é", "{{x}}", "'q'", "bad\xffutf8", "~", "a b", "linux", "macos"}).Draw(rt, label)
	return v
}

func genC08(rt *rapid.T) C08Case {
	var c C08Case
	c.Main = genDB(rt, 8)
	c.Notebook = rapid.SampledFrom([]string{"missing", "missing", "empty", "populated", "populated", "handwritten", "malformed"}).Draw(rt, "notebook")
	if c.Notebook == "populated" {
		c.Initial = genDB(rt, 5)
		if rapid.IntRange(0, 2).Draw(rt, "shaped") == 0 {
			c.Notebook = "shaped"
			c.Shape = rapid.SampledFrom(c08Shapes).Draw(rt, "shape")
		}
	}
	if c.Notebook != "missing" && rapid.IntRange(0, 5).Draw(rt, "linked") == 0 {
		c.Link = rapid.SampledFrom([]string{"rel", "abs"}).Draw(rt, "linkkind")
	}
	if rapid.IntRange(0, 3).Draw(rt, "hasstrays") == 0 {
		c.Strays = rapid.SliceOfNDistinct(rapid.SampledFrom(c08StrayPaths), 1, 3, rapid.ID[string]).Draw(rt, "strays")
	}
	if rapid.IntRange(0, 3).Draw(rt, "hasleftovers") == 0 {
		c.Leftovers = rapid.SliceOfNDistinct(rapid.SampledFrom(c08LeftoverNames), 1, 3, rapid.ID[string]).Draw(rt, "leftovers")
	}
	stepGen := rapid.Custom(func(rt *rapid.T) C08Step {
		st := C08Step{Kind: rapid.SampledFrom([]string{"save", "save", "save", "savepipe", "savepipe", "resave", "search", "search"}).Draw(rt, "kind")}
		st.Command = strconv.Quote(genText(rt, "cmd"))
		st.Desc = strconv.Quote(genText(rt, "desc"))
		st.Name = strconv.Quote(genText(rt, "name"))
		nk := rapid.IntRange(0, 3).Draw(rt, "nk")
		for i := 0; i < nk; i++ {
			st.Keywords = append(st.Keywords, strconv.Quote(genListValue(rt, "kw")))
		}
		np := rapid.IntRange(0, 2).Draw(rt, "np")
		for i := 0; i < np; i++ {
			st.Plats = append(st.Plats, strconv.Quote(genListValue(rt, "plat")))
		}
		st.HasCat = rapid.Bool().Draw(rt, "hascat")
		st.Category = strconv.Quote(genText(rt, "cat"))
		st.HasDesc = rapid.Bool().Draw(rt, "hasdesc")
		st.Pipeline = rapid.Bool().Draw(rt, "pipeline")
		st.Target = rapid.IntRange(0, 20).Draw(rt, "target")
		st.Short = rapid.Bool().Draw(rt, "short")
		st.Respell = rapid.SampledFrom([]int{0, 0, 1, 2}).Draw(rt, "respell")
		st.Cwd = rapid.IntRange(0, len(c08Cwds)-1).Draw(rt, "cwd")
		return st
	})
	c.Steps = rapid.SliceOfN(stepGen, 1, tierN(10, 25)).Draw(rt, "steps")
	if rapid.IntRange(0, 2).Draw(rt, "hassched") == 0 {
		c.Sched = genSchedule(rt, 40)
	}
	return c
}

const handwrittenNotebook = `# my commands
- command: "tar -czf backup.tar.gz ~"   # quoted
  description: Create compressed backup of home
  keywords: [backup, archive]
  niche: system
- command: |
    find . -name '*.log' |
      xargs rm
  description: >
    remove log
    files
  keywords:
    - delete
    - log
  platform: [linux, macos]
  pipeline: true
`

func unq(s string) string {
	u, err := strconv.Unquote(s)
	if err != nil {
		return s
	}
	return u
}

func unqAll(ss []string) []string {
	var out []string
	for _, s := range ss {
		out = append(out, unq(s))
	}
	return out
}

type nbEntry struct {
	Command, Description, Niche string
	Keywords, Platform          []string
	Pipeline                    bool
}

func nbOf(c database.Command) nbEntry {
	return nbEntry{c.Command, c.Description, c.Niche, append([]string(nil), c.Keywords...), append([]string(nil), c.Platform...), c.Pipeline}
}

func nbEqual(a, b nbEntry) bool {
	return a.Command == b.Command && a.Description == b.Description && a.Niche == b.Niche && a.Pipeline == b.Pipeline &&
		strings.Join(a.Keywords, "\x00") == strings.Join(b.Keywords, "\x00") && len(a.Keywords) == len(b.Keywords) &&
		strings.Join(a.Platform, "\x00") == strings.Join(b.Platform, "\x00") && len(a.Platform) == len(b.Platform)
}

func textClass(s string) string {
	for _, r := range s {
		if r == 0xFFFD {
			return "invalid-utf8"
		}
	}
	if !isValidUTF8(s) {
		return "invalid-utf8"
	}
	for _, r := range s {
		if r < 0x20 && r != '\n' && r != '\t' || r == 0x7f {
			return "control"
		}
		if r == 0x85 || r == 0x2028 || r == 0x2029 || r == 0xfeff || r == 0xa0 {
			return "unicode-space"
		}
	}
	if strings.ContainsAny(s, "\n\r") {
		return "multiline"
	}
	return "plain"
}

func isValidUTF8(s string) bool { return strings.ToValidUTF8(s, "") == s }

func runC08(c C08Case) *Outcome {
	o := &Outcome{Probes: map[string]int{}}
	w := newPWorld()
	w.sched = c.Sched
	w.disk.WriteRaw(pMainDB, yamlOf(c.Main), 0o644)
	var model []nbEntry
	switch c.Notebook {
	case "empty":
		w.disk.WriteRaw(pNotebook, nil, 0o644)
	case "populated":
		w.disk.WriteRaw(pNotebook, yamlOf(c.Initial), 0o644)
	case "shaped":
		w.disk.WriteRaw(pNotebook, shapeNotebook(c.Initial, c.Shape), 0o644)
	case "handwritten":
		w.disk.WriteRaw(pNotebook, []byte(handwrittenNotebook), 0o644)
	case "malformed":
		w.disk.WriteRaw(pNotebook, []byte("- command: \"open\n  description: [x\n"), 0o644)
	}
	linkNotebook(w.disk, c.Link)
	malformed := c.Notebook == "malformed"
	if !malformed {
		init, err := loadNotebookFrom(w.disk, pNotebook)
		if err != nil {
			o.Harness = "initial notebook does not load: " + err.Error()
			return o
		}
		for _, e := range init {
			model = append(model, nbOf(e))
		}
	}
	var log []string
	var digs []string // per-step digests of everything observable (determinism self-test)
	fail := func(sig, f string, a ...any) *Outcome {
		o.Violation = fmt.Sprintf(f, a...) + "\n  notebook at start: " + c.Notebook + "\n  steps:\n    " + strings.Join(log, "\n    ")
		o.Sig = "C08/" + sig
		o.Digest = digestOf(log)
		return o
	}
	var beh []string
	saves, replaced, found := 0, 0, 0
	for _, sp := range c.Strays {
		body := "- command: stray-entry\n  description: a file that merely has a familiar name\n  keywords: [stray]\n"
		if strings.HasSuffix(sp, ".json") {
			body = `{"entries": [], "max_size": 7}`
		} else if len(sp)%2 == 0 {
			body = ""
		}
		w.disk.WriteRaw(sp, []byte(body), 0o644)
	}
	for _, ln := range c.Leftovers {
		var lb strings.Builder
		for k := 0; k < 60; k++ {
			fmt.Fprintf(&lb, "- command: leftover-%d --from-a-killed-save\n  description: entry %d of a notebook that was never put in place\n  keywords: [leftover]\n", k, k)
		}
		w.disk.MkdirAllRaw(filepath.Dir(pNotebook), 0o755)
		w.disk.WriteRaw(filepath.Join(filepath.Dir(pNotebook), ln), []byte(lb.String()), 0o600)
	}
	for _, d := range c08Cwds {
		w.disk.MkdirAllRaw(d, 0o755)
	}
	for i, st := range c.Steps {
		w.disk.Cwd = c08Cwds[st.Cwd%len(c08Cwds)]
		before, hadBefore := w.disk.ReadRaw(pNotebook)
		before = append([]byte(nil), before...)
		switch st.Kind {
		case "save", "savepipe", "resave":
			cmd, desc, name := unq(st.Command), unq(st.Desc), unq(st.Name)
			kws, plats := unqAll(st.Keywords), unqAll(st.Plats)
			cat := unq(st.Category)
			if st.Kind == "resave" {
				if len(model) == 0 {
					continue
				}
				tgt := model[st.Target%len(model)]
				cmd = tgt.Command
				if st.Respell != 0 && !tgt.Pipeline {
					// same description, category and pipeline flag; only the list structure changes
					desc, cat = tgt.Description, tgt.Niche
					st.HasCat = tgt.Niche != ""
					st.Pipeline = false
					respell := func(in []string) []string {
						var out []string
						if st.Respell == 1 {
							for _, it := range in {
								out = append(out, strings.Fields(it)...)
							}
						} else if len(in) > 0 {
							out = []string{strings.Join(in, " ")}
						}
						var ok []string
						for _, it := range out {
							if it != "" && !strings.ContainsAny(it, ",\"\r\n") {
								ok = append(ok, it)
							}
						}
						return ok
					}
					kws, plats = respell(tgt.Keywords), respell(tgt.Platform)
				}
			}
			pipe := st.Kind == "savepipe" || (st.Kind == "resave" && st.Pipeline && st.Short)
			var args []string
			if pipe {
				args = []string{"save-pipeline", "--"}
				args = []string{"save-pipeline"}
			} else {
				args = []string{"save"}
			}
			for _, k := range kws {
				if st.Short {
					args = append(args, "-k", k)
				} else {
					args = append(args, "--keywords="+k)
				}
			}
			if st.HasCat {
				if st.Short {
					args = append(args, "-c", cat)
				} else {
					args = append(args, "--category="+cat)
				}
			}
			for _, p := range plats {
				args = append(args, "--platforms="+p)
			}
			want := nbEntry{Command: cmd, Keywords: kws, Platform: plats}
			if st.HasCat {
				want.Niche = cat
			}
			if pipe {
				if st.HasDesc {
					args = append(args, "--description="+desc)
				}
				args = append(args, "--", name, cmd)
				want.Pipeline = true
			} else {
				if st.Pipeline {
					args = append(args, "--pipeline")
					want.Pipeline = true
				}
				args = append(args, "--", cmd, desc)
				want.Description = desc
			}
			res, err := w.run(argsOf(args...), nil, nil, "s")
			if err != nil {
				o.Harness = err.Error()
				return o
			}
			log = append(log, fmt.Sprintf("%s -> %s", quoteArgs(argsOf(args...)), exitDesc(res)))
			digs = append(digs, stepDigest(res))
			if res.Exit == "panic" || res.Exit == "fatal" {
				return fail("crash:"+args[0], "step %d: %s crashed: %s", i, args[0], exitDesc(res))
			}
			out := string(res.Stdout)
			success := strings.Contains(out, "saved successfully!")
			after, hasAfter := w.disk.ReadRaw(pNotebook)
			if !success {
				if hadBefore != hasAfter || string(before) != string(after) {
					return fail("changed-without-success", "step %d: %s did not report success but the notebook changed (%d -> %d bytes); output: %q", i, args[0], len(before), len(after), out)
				}
				if !malformed && res.Code == 0 && !strings.Contains(out, "Error") {
					return fail("silent-failure", "step %d: %s neither reported success nor an error; output: %q", i, args[0], out)
				}
				beh = append(beh, "F")
				continue
			}
			if malformed {
				return fail("saved-over-broken-notebook", "step %d: %s reported success although the notebook did not parse", i, args[0])
			}
			saves++
			got, lerr := loadNotebookFrom(w.disk, pNotebook)
			if lerr != nil {
				return fail("unloadable:"+textClass(cmd+desc+cat+strings.Join(kws, "")), "step %d: after a successful %s the notebook no longer loads: %v", i, args[0], lerr)
			}
			// expected model
			idx := -1
			for j, e := range model {
				if e.Command == cmd {
					idx = j
					break
				}
			}
			newModel := append([]nbEntry(nil), model...)
			if idx >= 0 {
				newModel[idx] = want
				replaced++
			} else {
				newModel = append(newModel, want)
				idx = len(newModel) - 1
			}
			if len(got) != len(newModel) {
				return fail("entry-count", "step %d: the notebook holds %d entries after the save, expected %d (replace by command string, else append)", i, len(got), len(newModel))
			}
			for j := range newModel {
				g := nbOf(got[j])
				if j == idx {
					wantJ := newModel[j]
					if pipe {
						// description: the given one when --description is present (non-empty), else generated; user keywords are a suffix
						if st.HasDesc && desc != "" {
							wantJ.Description = desc
						} else {
							wantJ.Description = g.Description
							if !strings.Contains(g.Description, name) {
								return fail("pipeline-description", "step %d: the generated description %q does not mention the pipeline name %q", i, g.Description, name)
							}
						}
						if len(g.Keywords) < len(kws) || strings.Join(g.Keywords[len(g.Keywords)-len(kws):], "\x00") != strings.Join(kws, "\x00") {
							return fail("unfaithful:keywords", "step %d: stored keywords %q do not end with the given %q", i, g.Keywords, kws)
						}
						wantJ.Keywords = g.Keywords
						newModel[j] = wantJ
					}
					if !nbEqual(g, wantJ) {
						field, gv, wv := diffEntry(g, wantJ)
						return fail("unfaithful:"+field+":"+textClass(wv), "step %d: the saved entry's %s is %q, given %q", i, field, gv, wv)
					}
					continue
				}
				if !nbEqual(g, newModel[j]) {
					field, gv, wv := diffEntry(g, newModel[j])
					return fail("neighbour-changed:"+field+":"+textClass(wv), "step %d: entry %d (%q), saved earlier, changed: %s is now %q, was %q", i, j, newModel[j].Command, field, gv, wv)
				}
			}
			model = newModel
			beh = append(beh, "S")
			// "the database used for searching is exactly the main entries followed by the notebook entries": every search
			// command must answer as it does when the same entries stand in ONE file (the main file's text followed by
			// the notebook's text, both block sequences the tool or the harness wrote) and there is no notebook
			if st.Target%3 == 0 && len(c.Main) > 0 {
				words := searchableWords(want.Description, want.Command, strings.Join(want.Keywords, " "))
				if len(words) > 2 {
					words = words[:2]
				}
				nbBytes, _ := w.disk.ReadRaw(pNotebook)
				if len(words) > 0 && len(nbBytes) > 0 && nbBytes[0] == '-' {
					one := &pworld{disk: w.disk.Clone(), clockNS: w.clockNS, sched: w.sched}
					mainBytes, _ := one.disk.ReadRaw(pMainDB)
					one.disk.RemoveRaw(pNotebook)
					one.disk.RemoveRaw(one.disk.ResolveRaw(pNotebook))
					one.disk.WriteRaw(pMainDB, append(append(append([]byte(nil), mainBytes...), '\n'), nbBytes...), 0o644)
					for _, sub := range [][]string{{"pipeline", "-d", pMainDB, "--limit", "50"}, {"search", "--all-platforms", "-d", pMainDB, "--limit", "50", "--format", "json"}} {
						a := append(append([]string(nil), sub...), words...)
						two, e1 := w.probe(argsOf(a...), nil, "s")
						single, e2 := one.probe(argsOf(a...), nil, "s")
						if e1 != nil || e2 != nil {
							o.Harness = fmt.Sprint(e1, e2)
							return o
						}
						if two.Exit != "exit" || single.Exit != "exit" {
							continue // crashes are C17's subject
						}
						if string(two.Stdout) != string(single.Stdout) {
							log = append(log, quoteArgs(argsOf(a...)))
							return fail("not-main-plus-notebook:"+sub[0], "step %d: `wtf %s` over main file + notebook prints something else than over one file holding the same entries in the same order:\n   two files: %q\n   one file:  %q", i, strings.Join(a, " "), tailStr(string(two.Stdout), 400), tailStr(string(single.Stdout), 400))
						}
						o.Probes["c08.one_file_equivalence_checked"]++
					}
				}
			}
		case "search":
			if len(model) == 0 {
				continue
			}
			target := model[st.Target%len(model)]
			words := searchableWords(target.Command, target.Description, strings.Join(target.Keywords, " "))
			if len(words) == 0 {
				continue
			}
			if len(words) > 2 {
				words = words[:2]
			}
			args := append([]string{"search", "--all-platforms", "--limit", "100", "--format", "json", "-v", "-d", pMainDB}, words...)
			res, err := w.run(argsOf(args...), nil, nil, "s")
			if err != nil {
				o.Harness = err.Error()
				return o
			}
			log = append(log, fmt.Sprintf("%s -> %s", quoteArgs(argsOf(args...)), exitDesc(res)))
			digs = append(digs, stepDigest(res))
			if res.Exit != "exit" {
				return fail("crash:search", "step %d: search crashed: %s", i, exitDesc(res))
			}
			out := string(res.Stdout)
			if malformed {
				continue
			}
			wantLoaded := fmt.Sprintf("Loaded %d commands from database", len(c.Main)+len(model))
			if !strings.Contains(out, wantLoaded) {
				line := ""
				for _, l := range strings.Split(out, "\n") {
					if strings.HasPrefix(l, "Loaded ") || strings.HasPrefix(l, "Warning") {
						line += l + " / "
					}
				}
				return fail("merge-size", "step %d: search does not run over main (%d) + notebook (%d) entries: %q", i, len(c.Main), len(model), line)
			}
			items, jerr := jsonBlock(res.Stdout)
			if jerr != "" {
				return fail("search-output", "step %d: %s; output %q", i, jerr, out)
			}
			hit := false
			for _, it := range items {
				// the JSON printer replaces invalid UTF-8 by U+FFFD: compare in that form
				if it.Command == strings.ToValidUTF8(target.Command, "\uFFFD") && it.Description == strings.ToValidUTF8(target.Description, "\uFFFD") {
					hit = true
				}
			}
			if !hit && len(items) < 100 {
				return fail("not-found:"+textClass(target.Command+target.Description), "step %d: the saved entry %q is not among the %d results of a search for its own words %q", i, target.Command, len(items), words)
			}
			found++
			beh = append(beh, "Q")
		}
	}
	o.Probes["c08.saves_ok"] = saves
	o.Probes["c08.replaced_in_place"] = replaced
	o.Probes["c08.found_by_search"] = found
	o.Evals = w.steps
	o.NonTrivial = saves >= 2 || (saves >= 1 && found >= 1)
	o.Behaviour = c.Notebook + " " + strings.Join(beh, "")
	o.Digest = digestOf([]any{log, digs})
	return o
}

func diffEntry(g, w nbEntry) (field, gv, wv string) {
	switch {
	case g.Command != w.Command:
		return "command", g.Command, w.Command
	case g.Description != w.Description:
		return "description", g.Description, w.Description
	case g.Niche != w.Niche:
		return "category", g.Niche, w.Niche
	case g.Pipeline != w.Pipeline:
		return "pipeline", fmt.Sprint(g.Pipeline), fmt.Sprint(w.Pipeline)
	case strings.Join(g.Keywords, "\x00") != strings.Join(w.Keywords, "\x00") || len(g.Keywords) != len(w.Keywords):
		return "keywords", strings.Join(g.Keywords, "|"), strings.Join(w.Keywords, "|")
	}
	return "platforms", strings.Join(g.Platform, "|"), strings.Join(w.Platform, "|")
}

func TestC08(t *testing.T) { runProperty(t, "C08", genC08, runC08) }

func init() { awkward = append(awkward, escapeLookalikes...) }

// linkNotebook turns the notebook file into a symbolic link to a file that holds its content.
func linkNotebook(d *simos.Disk, kind string) {
	b, ok := d.ReadRaw(pNotebook)
	if kind == "" || !ok {
		return
	}
	b = append([]byte(nil), b...)
	d.RemoveRaw(pNotebook)
	switch kind {
	case "rel":
		d.WriteRaw(filepath.Dir(pNotebook)+"/personal.shared.yml", b, 0o644)
		d.SymlinkRaw(pNotebook, "personal.shared.yml")
	default:
		d.WriteRaw("/srv/dotfiles/wtf/personal.yml", b, 0o644)
		d.SymlinkRaw(pNotebook, "/srv/dotfiles/wtf/personal.yml")
	}
}
