package harness

// C05 — the result cache is invisible: cached answers equal fresh answers.
// World L: histories of searches through every caching / monitoring entry point,
// invalidations, on/off switches, sweeps, database replacements and clock steps, with
// the search-cache capacity and lifetime as per-case knobs. Oracle: immediately after
// each caching search the same request goes to the uncached engine of the same
// Database object at the same simulated instant; the lists must be equal.

import (
	"fmt"
	"reflect"
	"sort"
	"strings"
	"testing"
	"time"

	"github.com/Vedant9500/WTF/internal/cache"
	"github.com/Vedant9500/WTF/internal/database"
	"github.com/Vedant9500/WTF/zz_verif/sim/simos"
	"github.com/Vedant9500/WTF/zz_verif/sim/simrt"
	"github.com/Vedant9500/WTF/zz_verif/sim/simtime"
	"pgregory.net/rapid"
)

type C05Op struct {
	Kind    string  `json:"k"` // search invalidate enable disable cleanup update loadmon advance stats
	Entry   int     `json:"e,omitempty"`
	Q       int     `json:"q,omitempty"`
	Variant int     `json:"v,omitempty"`
	O       int     `json:"o,omitempty"`
	DB      int     `json:"db,omitempty"`
	Adv     int64   `json:"adv,omitempty"`
	Word    string  `json:"word,omitempty"` // mutate: the boosted word
	F       float64 `json:"f,omitempty"`    // mutate: its new factor
}

type C05Case struct {
	// Sched: schedule vector for goroutines / channels / select choices of the code under test (single-task case body = first task)
	Sched []uint16 `json:"sched,omitempty"`
	// Big: when > 0 the first database is blown up to this many entries (answers longer than 100 / 1000 results)
	Big      int      `json:"big,omitempty"`
	DBs      [][]Cmd  `json:"dbs"`
	Queries  []string `json:"queries"`
	Options  []Opts   `json:"options"`
	Capacity int      `json:"capacity"`
	TTL      int64    `json:"ttl_ns"`
	Stock    bool     `json:"stock_constructor"`
	Ops      []C05Op  `json:"ops"`
	// LiveOpts: the caller keeps one SearchOptions value per option set for the whole history (the same
	// ContextBoosts map object is passed again and again) and "mutate" operations change a boost in place
	LiveOpts bool `json:"caller_reuses_option_values,omitempty"`
}

var c05Entries = []string{"SearchWithCache", "SearchWithOptionsAndCache", "SearchWithPipelineOptionsAndCache", "SearchWithFuzzyAndCache", "SearchWithMonitoring", "SearchWithOptionsAndMonitoring"}

func queryVariant(q string, v int) string {
	switch v {
	case 1:
		return strings.ToUpper(q)
	case 2:
		return q + " "
	case 3:
		return "  " + q
	case 4:
		return strings.Title(q)
	case 5:
		return q + "\t"
	}
	return q
}

func genC05(rt *rapid.T) C05Case {
	var c C05Case
	ndb := rapid.IntRange(1, 3).Draw(rt, "ndb")
	for i := 0; i < ndb; i++ {
		c.DBs = append(c.DBs, genDB(rt, 14))
	}
	if rapid.IntRange(0, 39).Draw(rt, "big") == 20 {
		c.Big = rapid.SampledFrom([]int{130, 300, 1100}).Draw(rt, "bign")
	}
	nq := rapid.IntRange(1, 5).Draw(rt, "nq")
	for i := 0; i < nq; i++ {
		c.Queries = append(c.Queries, genQuery(rt, rapid.SampledFrom([]int{2, 4, 8}).Draw(rt, "qmax")))
	}
	// option pool: each new set differs from an earlier one in exactly one field (mostly)
	c.Options = []Opts{genOpts(rt)}
	no := rapid.IntRange(1, 5).Draw(rt, "no")
	for i := 0; i < no; i++ {
		if rapid.IntRange(0, 5).Draw(rt, "fresh") == 0 {
			c.Options = append(c.Options, genOpts(rt))
			continue
		}
		base := c.Options[rapid.IntRange(0, len(c.Options)-1).Draw(rt, "base")]
		f := rapid.SampledFrom(optFields).Draw(rt, "field")
		c.Options = append(c.Options, mutateOpt(rt, base, f))
	}
	if rapid.IntRange(0, 7).Draw(rt, "nonfinite") == 0 {
		// factors that are no finite numbers (a division by zero upstream): they are option values like any other, and
		// two requests that differ elsewhere must still not share an entry
		i := rapid.IntRange(0, len(c.Options)-1).Draw(rt, "nfi")
		v := rapid.SampledFrom([]string{"+Inf", "NaN", "-Inf"}).Draw(rt, "nfv")
		if rapid.Bool().Draw(rt, "nfwhere") {
			c.Options[i].NonFinite = map[string]string{"pboost": v}
		} else {
			c.Options[i].NonFinite = map[string]string{"boost:" + genWord(rt, "nfw"): v}
		}
		// and a sibling that differs in one other field
		c.Options = append(c.Options, mutateOpt(rt, c.Options[i], rapid.SampledFrom([]string{"ponly", "nlp", "allp", "cap", "fuzzy"}).Draw(rt, "nff")))
	}
	c.LiveOpts = rapid.IntRange(0, 2).Draw(rt, "liveopts") == 0
	c.Stock = rapid.IntRange(0, 9).Draw(rt, "stock") == 0
	c.Capacity = rapid.IntRange(1, 6).Draw(rt, "capacity")
	c.TTL = rapid.SampledFrom([]int64{0, int64(30 * time.Second), int64(5 * time.Minute)}).Draw(rt, "ttl")
	kinds := swarmKinds(rt, []string{"search", "search", "search", "search", "search", "search", "invalidate", "enable", "disable", "cleanup", "update", "loadmon", "advance", "stats", "mutate", "mutate"}, "search")
	if len(c.DBs) > 1 && rapid.IntRange(0, 3).Draw(rt, "twowrappers") == 0 {
		kinds = append(kinds, "other", "other") // a second caching wrapper, over another database, in the same process
	}
	opGen := rapid.Custom(func(rt *rapid.T) C05Op {
		op := C05Op{Kind: rapid.SampledFrom(kinds).Draw(rt, "kind")}
		switch op.Kind {
		case "other":
			op.Q = rapid.IntRange(0, len(c.Queries)-1).Draw(rt, "q")
			op.O = rapid.IntRange(0, len(c.Options)-1).Draw(rt, "o")
		case "search":
			op.Entry = rapid.IntRange(0, len(c05Entries)-1).Draw(rt, "entry")
			op.Q = rapid.IntRange(0, len(c.Queries)-1).Draw(rt, "q")
			op.Variant = rapid.SampledFrom([]int{0, 0, 0, 1, 2, 3, 4, 5}).Draw(rt, "variant")
			op.O = rapid.IntRange(0, len(c.Options)-1).Draw(rt, "o")
		case "mutate":
			op.O = rapid.IntRange(0, len(c.Options)-1).Draw(rt, "o")
			op.Word = genWord(rt, "mword")
			op.F = rapid.SampledFrom([]float64{0.5, 1.5, 2, 3, 1.504}).Draw(rt, "mf")
		case "update", "loadmon":
			op.DB = rapid.IntRange(0, len(c.DBs)-1).Draw(rt, "db")
		case "advance":
			base := c.TTL
			if base <= 0 {
				base = int64(time.Minute)
			}
			op.Adv = base*rapid.SampledFrom([]int64{0, 1, 1, 2}).Draw(rt, "mult")/rapid.SampledFrom([]int64{1, 2}).Draw(rt, "div") + rapid.SampledFrom([]int64{-1, 0, 1}).Draw(rt, "delta")
			if op.Adv < 0 {
				op.Adv = 0
			}
		}
		return op
	})
	minLen := rapid.SampledFrom([]int{1, 4, 12}).Draw(rt, "minlen")
	c.Ops = rapid.SliceOfN(opGen, minLen, tierN(40, 100)).Draw(rt, "ops")
	if rapid.IntRange(0, 3).Draw(rt, "hassched") == 0 {
		c.Sched = genSchedule(rt, 40)
	}
	return c
}

type c05Req struct {
	q    string
	opts Opts
	got  []Res
}

func optDiff(a, b Opts) []string {
	var d []string
	if a.Limit != b.Limit {
		d = append(d, "limit")
	}
	if !reflect.DeepEqual(a.ContextBoosts, b.ContextBoosts) && (len(a.ContextBoosts) > 0 || len(b.ContextBoosts) > 0) {
		d = append(d, "boosts")
	}
	if a.PipelineOnly != b.PipelineOnly {
		d = append(d, "ponly")
	}
	if a.PipelineBoost != b.PipelineBoost {
		d = append(d, "pboost")
	}
	if !reflect.DeepEqual(a.NonFinite, b.NonFinite) && (len(a.NonFinite) > 0 || len(b.NonFinite) > 0) {
		d = append(d, "nonfinite")
	}
	if a.UseFuzzy != b.UseFuzzy {
		d = append(d, "fuzzy")
	}
	if a.FuzzyThreshold != b.FuzzyThreshold {
		d = append(d, "fthr")
	}
	if a.UseNLP != b.UseNLP {
		d = append(d, "nlp")
	}
	if a.TopTermsCap != b.TopTermsCap {
		d = append(d, "cap")
	}
	if a.AllPlatforms != b.AllPlatforms {
		d = append(d, "allp")
	}
	if strings.Join(a.Platforms, ",") != strings.Join(b.Platforms, ",") {
		d = append(d, "plats")
	}
	if a.NoCrossPlatform != b.NoCrossPlatform {
		d = append(d, "nocross")
	}
	return d
}

func runC05(c C05Case) *Outcome {
	return scheduledOutcome(c.Sched, func() *Outcome { return runC05Body(c) })
}

func runC05Body(c C05Case) *Outcome {
	o := &Outcome{Probes: map[string]int{}}
	if c.Big > 0 && len(c.DBs[0]) > 0 {
		c.DBs = append([][]Cmd{blowUp(c.DBs[0], c.Big)}, c.DBs[1:]...)
		o.Probes["c05.big_database"] = 1
	}
	simrt.SetOrderCanonical()
	simtime.Install(simtime.Epoch)
	defer simtime.Uninstall()
	disk := simos.NewDisk()
	simos.Mount(disk, nil)
	defer simos.Unmount()
	disk.WriteRaw("/data/main.yml", yamlOf(c.DBs[0]), 0o644)
	db, err := database.LoadDatabase("/data/main.yml")
	var log []string
	fail := func(sig, f string, a ...any) *Outcome {
		o.Violation = fmt.Sprintf(f, a...) + "\n  history: " + strings.Join(log, " ; ")
		o.Sig = "C05/" + sig
		o.Digest = digestOf(log)
		return o
	}
	if err != nil {
		return fail("load", "loading a generated database failed: %v", err)
	}
	mdb := database.NewMonitoredDatabase(db)
	if !c.Stock {
		p := fieldByType(mdb, reflect.TypeOf((*cache.Manager)(nil)))
		if p == nil {
			o.Violation = "harness: no *cache.Manager field reachable from MonitoredDatabase"
			o.Sig = "HARNESS"
			return o
		}
		mgr := *(**cache.Manager)(p)
		*mgr.GetSearchCache() = *cache.NewSearchCache(c.Capacity, time.Duration(c.TTL))
	}
	// the caller's long-lived option values (LiveOpts mode): opts[i] mirrors live[i] at every moment
	opts := append([]Opts(nil), c.Options...)
	live := make([]database.SearchOptions, len(opts))
	for i := range opts {
		live[i] = opts[i].toDB()
	}
	var other *database.CachedDatabase
	var reqs []c05Req
	hits, deltas, replaced, evictions := 0, 0, 0, 0
	seenOpts := map[string][]Opts{} // normalised query -> option sets used
	var beh []string
	for i, op := range c.Ops {
		switch op.Kind {
		case "search":
			q := queryVariant(c.Queries[op.Q%len(c.Queries)], op.Variant)
			oi := op.O % len(c.Options)
			opts := opts[oi]
			pass := opts.toDB()
			if c.LiveOpts {
				pass = live[oi] // the very same value (and map object) as last time
			}
			if op.Entry == 0 || op.Entry == 4 {
				opts = Opts{Limit: opts.Limit}
			}
			before := mdb.GetCacheStats()["search"]
			var got []database.SearchResult
			switch op.Entry {
			case 0:
				got = mdb.SearchWithCache(q, opts.Limit)
			case 1:
				got = mdb.SearchWithOptionsAndCache(q, pass)
			case 2:
				got = mdb.SearchWithPipelineOptionsAndCache(q, pass)
			case 3:
				got = mdb.SearchWithFuzzyAndCache(q, pass)
			case 4:
				got = mdb.SearchWithMonitoring(q, opts.Limit)
			default:
				got = mdb.SearchWithOptionsAndMonitoring(q, pass)
			}
			after := mdb.GetCacheStats()["search"]
			fresh := mdb.Database.SearchUniversal(q, opts.toDB())
			g, f := resOf(got), resOf(fresh)
			log = append(log, fmt.Sprintf("%s(%q,%+v)=%s", c05Entries[op.Entry], q, opts, resString(g)))
			hit := after.Hits > before.Hits
			if hit {
				hits++
			}
			if after.Evictions > before.Evictions {
				evictions++
			}
			nq := strings.ToLower(strings.TrimSpace(q))
			for _, prev := range seenOpts[nq] {
				if len(optDiff(prev, opts)) == 1 {
					deltas++
					break
				}
			}
			seenOpts[nq] = append(seenOpts[nq], opts)
			if !resEqual(g, f) {
				// which earlier request does the wrong list belong to?
				sig := "mismatch"
				for j := len(reqs) - 1; j >= 0; j-- {
					if resEqual(reqs[j].got, g) && len(g) > 0 {
						d := optDiff(reqs[j].opts, opts)
						if reqs[j].q != q {
							if strings.EqualFold(reqs[j].q, q) {
								d = append(d, "query-case")
							} else if strings.EqualFold(strings.TrimSpace(reqs[j].q), strings.TrimSpace(q)) {
								d = append(d, "query-space")
							} else {
								d = append(d, "query")
							}
						}
						sort.Strings(d)
						sig = "alias:" + strings.Join(d, "+")
						break
					}
				}
				if replaced > 0 && sig == "mismatch" {
					sig = "stale-after-replace"
				}
				return fail(sig, "step %d: %s(%q, %+v) returned %s but the uncached engine returns %s at the same moment (cache hit: %v)", i, c05Entries[op.Entry], q, opts, resString(g), resString(f), hit)
			}
			reqs = append(reqs, c05Req{q, opts, g})
			if hit {
				beh = append(beh, "H")
			} else {
				beh = append(beh, "M")
			}
		case "mutate":
			oi := op.O % len(c.Options)
			nb := map[string]float64{}
			for k, v := range opts[oi].ContextBoosts {
				nb[k] = v
			}
			nb[op.Word] = op.F
			opts[oi].ContextBoosts = nb
			if _, had := opts[oi].NonFinite["boost:"+op.Word]; had { // the finite value replaces a non-finite one
				nf := map[string]string{}
				for k, v := range opts[oi].NonFinite {
					if k != "boost:"+op.Word {
						nf[k] = v
					}
				}
				opts[oi].NonFinite = nf
			}
			if live[oi].ContextBoosts == nil {
				live[oi].ContextBoosts = map[string]float64{}
			}
			live[oi].ContextBoosts[op.Word] = op.F // in place: same map object as in earlier requests
			log = append(log, fmt.Sprintf("mutate(opts%d,%s=%v)", oi, op.Word, op.F))
			beh = append(beh, "m")
		case "invalidate":
			mdb.InvalidateCache()
			log = append(log, "invalidate")
			beh = append(beh, "i")
		case "enable":
			mdb.EnableCache(true)
			log = append(log, "enable")
			beh = append(beh, "e")
		case "disable":
			mdb.EnableCache(false)
			log = append(log, "disable")
			beh = append(beh, "d")
		case "cleanup":
			n := mdb.CleanupExpiredCache()
			log = append(log, fmt.Sprintf("cleanup=%v", n["search"]))
			beh = append(beh, fmt.Sprintf("c%d", n["search"]))
		case "update":
			mdb.UpdateDatabase(cmdsToDBPopulated(c.DBs[op.DB%len(c.DBs)]))
			replaced++
			reqs = nil
			log = append(log, fmt.Sprintf("update(db%d)", op.DB%len(c.DBs)))
			beh = append(beh, "u")
		case "loadmon":
			_ = mdb.LoadDatabaseWithMonitoring(cmdsToDBPopulated(c.DBs[op.DB%len(c.DBs)]))
			replaced++
			reqs = nil
			log = append(log, fmt.Sprintf("loadmon(db%d)", op.DB%len(c.DBs)))
			beh = append(beh, "l")
		case "advance":
			simtime.Advance(time.Duration(op.Adv))
			o.SimNanos += op.Adv
			log = append(log, fmt.Sprintf("adv(%d)", op.Adv))
			beh = append(beh, "a")
		case "other":
			// the same request through a second wrapper over another database: each wrapper answers for its own
			if other == nil {
				disk.WriteRaw("/data/other.yml", yamlOf(c.DBs[1]), 0o644)
				odb, oerr := database.LoadDatabase("/data/other.yml")
				if oerr != nil {
					continue
				}
				other = database.NewCachedDatabase(odb)
			}
			q := c.Queries[op.Q%len(c.Queries)]
			so := opts[op.O%len(opts)].toDB()
			g := resOf(other.SearchWithOptionsAndCache(q, so))
			f := resOf(other.Database.SearchUniversal(q, so))
			log = append(log, fmt.Sprintf("second wrapper: SearchWithOptionsAndCache(%q,%+v)=%s", q, opts[op.O%len(opts)], resString(g)))
			if !resEqual(g, f) {
				return fail("other-wrapper", "step %d: a second caching wrapper over another database returned %s for (%q, %+v); the uncached engine of ITS database returns %s", i, resString(g), q, opts[op.O%len(opts)], resString(f))
			}
			beh = append(beh, "o")
		case "stats":
			s := mdb.GetCacheStats()["search"]
			log = append(log, fmt.Sprintf("stats=%d/%d", s.Size, s.Capacity))
			beh = append(beh, "s")
		}
	}
	o.Probes["cache.hit"] = hits
	o.Probes["cache.evict"] = evictions
	o.Probes["cache.option_delta_pair"] = deltas
	o.Probes["cache.db_replaced"] = replaced
	o.NonTrivial = hits > 0 && (deltas > 0 || replaced > 0 || evictions > 0)
	o.Behaviour = fmt.Sprintf("cap=%d ttl=%d %s", c.Capacity, c.TTL, strings.Join(beh, ""))
	o.Digest = digestOf(log)
	return o
}

func TestC05(t *testing.T) { runProperty(t, "C05", genC05, runC05) }
