package harness

// C18 — metrics are keyed by identity and account for every event.
//
// identity mode (world L, scripted map order): every get-or-create call runs under its
// own map-iteration order, with a separately allocated tag map of equal content; the
// same identity must always yield the same metric and GetAllMetrics must show one
// series per identity holding everything recorded for it.
//
// accounting mode (world C, seeded cooperative scheduler, race detector): 2-4 clients
// get-or-create and update metrics and call the monitor's record functions on a seeded
// interleaving; totals must equal what was recorded, and the detector must stay silent.

import (
	"flag"
	"fmt"
	"sort"
	"strconv"
	"strings"
	"testing"
	"time"
	"unsafe"

	"github.com/Vedant9500/WTF/internal/metrics"
	"github.com/Vedant9500/WTF/zz_verif/sim/simrt"
	"github.com/Vedant9500/WTF/zz_verif/sim/simtime"
	"pgregory.net/rapid"
)

type C18Op struct {
	Kind string `json:"k"` // inc add gauge obs timer search dbop readall pctl
	Name int    `json:"n,omitempty"`
	Tags int    `json:"t,omitempty"`
	V    int64  `json:"v,omitempty"`
	Hit  bool   `json:"hit,omitempty"`
	Ok   bool   `json:"ok,omitempty"`
	Op   int    `json:"op,omitempty"`
	Seed uint32 `json:"order_seed,omitempty"` // identity mode: map order plan for this call (0 = canonical)
}

type C18Case struct {
	Mode     string              `json:"mode"` // identity | accounting
	Names    []string            `json:"names"`
	TagSets  []map[string]string `json:"tagsets"`
	Ops      []C18Op             `json:"ops,omitempty"`
	Clients  [][]C18Op           `json:"clients,omitempty"`
	Schedule []uint16            `json:"schedule,omitempty"`
}

var c18DBOps = []string{"load", "search", "update"}

func genTagSet(rt *rapid.T) map[string]string {
	n := rapid.SampledFrom([]int{0, 1, 2, 2, 3, 4}).Draw(rt, "ntags")
	if n == 0 {
		if rapid.Bool().Draw(rt, "niltags") {
			return nil
		}
		return map[string]string{}
	}
	keys := []string{"op", "success", "cache_hit", "zone", "a"}
	vals := []string{"true", "false", "x", "load", ""}
	m := map[string]string{}
	for i := 0; i < n; i++ {
		m[keys[(i+rapid.IntRange(0, 4).Draw(rt, "koff"))%len(keys)]] = rapid.SampledFrom(vals).Draw(rt, "tval")
	}
	return m
}

func genC18Op(rt *rapid.T, c *C18Case, identity bool) C18Op {
	kinds := []string{"inc", "inc", "add", "gauge", "obs", "obs", "timer", "search", "dbop", "dbop", "readall", "pctl"}
	if identity {
		kinds = append(kinds, "monoff", "monon") // the monitor's switch is a plain flag: single task only
		if rapid.IntRange(0, 7).Draw(rt, "crowded") == 0 {
			kinds = append(kinds, "crowd")
		}
	}
	op := C18Op{Kind: rapid.SampledFrom(kinds).Draw(rt, "kind")}
	switch op.Kind {
	case "inc", "add", "gauge", "obs", "timer", "pctl":
		op.Name = rapid.IntRange(0, len(c.Names)-1).Draw(rt, "name")
		op.Tags = rapid.IntRange(0, len(c.TagSets)-1).Draw(rt, "tags")
		op.V = int64(rapid.SampledFrom([]int{0, 1, 2, 3, 5, 7, 10, 12, 100, 10000, 10001, 50000}).Draw(rt, "v"))
	case "crowd": // many distinct series of one kind: registries far larger than a handful of names
		op.Name = rapid.IntRange(0, 3).Draw(rt, "ckind")
		op.V = int64(rapid.SampledFrom([]int{60, 999, 1000, 1001, 2500}).Draw(rt, "cn"))
	case "search":
		op.Hit = rapid.Bool().Draw(rt, "hit")
		op.V = int64(rapid.IntRange(0, 30).Draw(rt, "qlen"))
	case "dbop":
		op.Op = rapid.IntRange(0, len(c18DBOps)-1).Draw(rt, "dbop")
		op.Ok = rapid.Bool().Draw(rt, "ok")
	}
	if identity {
		op.Seed = rapid.Uint32Range(0, 64).Draw(rt, "oseed")
	}
	return op
}

var flagMode = flag.String("verif.mode", "", "C18: force the case mode (identity | accounting); the driver runs identity cases in a race-free binary")

func genC18(rt *rapid.T) C18Case {
	var c C18Case
	if rapid.IntRange(0, 2).Draw(rt, "mode") == 0 {
		c.Mode = "identity"
	} else {
		c.Mode = "accounting"
	}
	if *flagMode != "" {
		c.Mode = *flagMode
	}
	// "latency" as a timer owns a histogram named "latency_duration": related names of different kinds must stay apart
	c.Names = []string{"latency", "latency_duration", "requests_total", "x"}[:rapid.IntRange(1, 4).Draw(rt, "nnames")]
	nts := rapid.IntRange(1, 3).Draw(rt, "ntagsets")
	for i := 0; i < nts; i++ {
		c.TagSets = append(c.TagSets, genTagSet(rt))
	}
	if c.Mode == "identity" {
		c.Ops = rapid.SliceOfN(rapid.Custom(func(rt *rapid.T) C18Op { return genC18Op(rt, &c, true) }), 1, tierN(30, 80)).Draw(rt, "ops")
		return c
	}
	nc := rapid.IntRange(2, 4).Draw(rt, "nclients")
	for i := 0; i < nc; i++ {
		c.Clients = append(c.Clients, rapid.SliceOfN(rapid.Custom(func(rt *rapid.T) C18Op { return genC18Op(rt, &c, false) }), 1, tierN(7, 12)).Draw(rt, "client"))
	}
	c.Schedule = genSchedule(rt, tierN(300, 600))
	return c
}

func tagsKey(m map[string]string) string {
	ks := make([]string, 0, len(m))
	for k := range m {
		ks = append(ks, k)
	}
	sort.Strings(ks)
	var sb strings.Builder
	for _, k := range ks {
		fmt.Fprintf(&sb, "%q=%q,", k, m[k])
	}
	return sb.String()
}

func copyTags(m map[string]string) map[string]string {
	if m == nil {
		return nil
	}
	out := make(map[string]string, len(m))
	for k, v := range m {
		out[k] = v
	}
	return out
}

// what one client did, recorded by the client itself (each client owns its record)
type c18Rec struct {
	ptrs    map[string][]unsafe.Pointer // identity -> pointers obtained
	incs    map[string]int64            // counter identity -> sum added
	obsN    map[string]int64            // histogram identity -> observations
	obsSum  map[string]int64
	search  int64
	hits    int64
	dbops   map[string]int64
	errs    []string
	ptrSeen int
}

func newC18Rec() *c18Rec {
	return &c18Rec{ptrs: map[string][]unsafe.Pointer{}, incs: map[string]int64{}, obsN: map[string]int64{}, obsSum: map[string]int64{}, dbops: map[string]int64{}}
}

type c18Sys struct {
	col *metrics.Collector
	mon *metrics.PerformanceMonitor
	c   *C18Case
}

func (s *c18Sys) id(kind string, op C18Op) (string, string, map[string]string) {
	name := s.c.Names[op.Name%len(s.c.Names)]
	tags := s.c.TagSets[op.Tags%len(s.c.TagSets)]
	return kind + "|" + name + "|" + tagsKey(tags), name, copyTags(tags)
}

// apply executes one operation on behalf of a client and records it.
func (s *c18Sys) apply(op C18Op, r *c18Rec) {
	switch op.Kind {
	case "inc", "add":
		id, name, tags := s.id("counter", op)
		ctr := s.col.Counter(name, tags)
		r.ptrs[id] = append(r.ptrs[id], unsafe.Pointer(ctr))
		if op.Kind == "inc" {
			ctr.Inc()
			r.incs[id]++
		} else {
			ctr.Add(op.V)
			r.incs[id] += op.V
		}
		if v := ctr.Value(); v < r.incs[id] {
			r.errs = append(r.errs, fmt.Sprintf("counter %s reads %d right after this client alone had added %d to it", id, v, r.incs[id]))
		}
	case "gauge":
		id, name, tags := s.id("gauge", op)
		g := s.col.Gauge(name, tags)
		r.ptrs[id] = append(r.ptrs[id], unsafe.Pointer(g))
		g.Set(float64(op.V))
	case "obs":
		id, name, tags := s.id("hist", op)
		h := s.col.Histogram(name, tags)
		r.ptrs[id] = append(r.ptrs[id], unsafe.Pointer(h))
		h.Observe(float64(op.V))
		r.obsN[id]++
		r.obsSum[id] += op.V
	case "timer":
		id, name, tags := s.id("timer", op)
		t := s.col.Timer(name, tags)
		r.ptrs[id] = append(r.ptrs[id], unsafe.Pointer(t))
		done := t.Time()
		simtime.Advance(time.Duration(op.V) * time.Millisecond)
		done()
		r.obsN[id]++
	case "pctl":
		_, name, tags := s.id("hist", op)
		h := s.col.Histogram(name, tags)
		id, _, _ := s.id("hist", op)
		r.ptrs[id] = append(r.ptrs[id], unsafe.Pointer(h))
		last := h.Percentile(0)
		for _, p := range []float64{0.25, 0.5, 0.9, 0.99, 1, 1.5, 5, 25, 50, 75, 90, 95, 99, 99.9, 100} {
			v := h.Percentile(p)
			if v < last {
				r.errs = append(r.errs, fmt.Sprintf("histogram %s: percentile %v = %v is below a lower percentile's %v", id, p, v, last))
			}
			last = v
		}
	case "crowd":
		kind := []string{"counter", "gauge", "hist", "timer"}[op.Name%4]
		for i := int64(0); i < op.V; i++ {
			tags := map[string]string{"i": strconv.FormatInt(i, 10)}
			id := kind + "|crowd|" + tagsKey(tags)
			for rep := 0; rep < 2; rep++ { // every series is asked for twice: the second lookup must find the first one's metric
				switch kind {
				case "counter":
					ctr := s.col.Counter("crowd", copyTags(tags))
					r.ptrs[id] = append(r.ptrs[id], unsafe.Pointer(ctr))
					ctr.Inc()
					r.incs[id]++
				case "gauge":
					r.ptrs[id] = append(r.ptrs[id], unsafe.Pointer(s.col.Gauge("crowd", copyTags(tags))))
				case "hist":
					h := s.col.Histogram("crowd", copyTags(tags))
					r.ptrs[id] = append(r.ptrs[id], unsafe.Pointer(h))
					h.Observe(float64(i))
					r.obsN[id]++
					r.obsSum[id] += i
				case "timer":
					r.ptrs[id] = append(r.ptrs[id], unsafe.Pointer(s.col.Timer("crowd", copyTags(tags))))
				}
			}
		}
	case "monoff":
		s.mon.Enable(false)
	case "monon":
		s.mon.Enable(true)
	case "search":
		on := s.mon.IsEnabled()
		s.mon.RecordSearchOperation(time.Duration(op.V)*time.Millisecond, int(op.V), op.Hit, int(op.V))
		if on { // a disabled monitor records nothing: only what was recorded while it was on is owed
			r.search++
			if op.Hit {
				r.hits++
			}
		}
	case "dbop":
		on := s.mon.IsEnabled()
		s.mon.RecordDatabaseOperation(c18DBOps[op.Op%len(c18DBOps)], time.Millisecond, op.Ok)
		if on {
			r.dbops[fmt.Sprintf("%s|%v", c18DBOps[op.Op%len(c18DBOps)], op.Ok)]++
		}
	case "readall":
		_ = s.col.GetAllMetrics()
		_ = s.mon.GetPerformanceReport()
	}
}

// seriesOf collects, from GetAllMetrics output, value per (name, tags) with a count of how many series carry that identity.
func seriesOf(ms []metrics.Metric) (val map[string]float64, n map[string]int) {
	val, n = map[string]float64{}, map[string]int{}
	for _, m := range ms {
		k := string(m.Type) + "|" + m.Name + "|" + tagsKey(m.Tags)
		val[k] += m.Value
		n[k]++
	}
	return
}

func runC18(c C18Case) *Outcome {
	o := &Outcome{Probes: map[string]int{}}
	simtime.Install(simtime.Epoch)
	defer simtime.Uninstall()
	simrt.SetOrderCanonical()
	defer simrt.SetOrderCanonical()
	sys := &c18Sys{col: metrics.NewCollector(), mon: metrics.NewPerformanceMonitor(), c: &c}
	var log []string
	fail := func(sig, f string, a ...any) *Outcome {
		o.Violation = fmt.Sprintf(f, a...) + "\n  mode " + c.Mode + "; log: " + strings.Join(log, " ; ")
		o.Sig = "C18/" + sig
		o.Digest = digestOf(log)
		return o
	}
	var recs []*c18Rec
	permutedLoops := 0
	if c.Mode == "identity" {
		r := newC18Rec()
		recs = []*c18Rec{r}
		for _, op := range c.Ops {
			if op.Seed != 0 {
				simrt.SetOrderPlan(nil, uint64(op.Seed), 0)
			} else {
				simrt.SetOrderCanonical()
			}
			sys.apply(op, r)
			if op.Seed != 0 {
				p, _, _ := simrt.OrderReport()
				permutedLoops += len(p)
			}
			log = append(log, fmt.Sprintf("%+v", op))
		}
		simrt.SetOrderCanonical()
	} else {
		clients := make([]func(), len(c.Clients))
		for i := range c.Clients {
			r := newC18Rec()
			recs = append(recs, r)
			ops := c.Clients[i]
			clients[i] = func() {
				for _, op := range ops {
					simrt.Yield("op")
					sys.apply(op, r)
				}
			}
		}
		cr := runClients(clients, c.Schedule, 6000)
		log = append(log, fmt.Sprintf("clients=%d steps=%d interleaving=%s", len(clients), cr.Res.Steps, interleavingSig(cr.Res)))
		o.Probes["sched.lock_contended"] = cr.Res.Contended
		o.Probes["sched.decisions"] = len(cr.Res.Decisions)
		if cr.Res.Deadlock {
			return fail("deadlock", "no client runnable before all finished: %s", cr.Res.DeadlockInfo)
		}
		if cr.Res.OverBudget {
			return fail("no-progress", "clients did not finish within %d scheduler steps", cr.Res.Steps)
		}
		for i, p := range cr.Res.Panics {
			return fail("panic", "client %d panicked: %s", i, p)
		}
		if cr.Races > 0 {
			return fail("race:"+raceSite(cr.RaceReport), "the race detector reported %d data race(s) on this (fully serialised) schedule:\n%s", cr.Races, cr.RaceReport)
		}
		o.Behaviour = interleavingSig(cr.Res)
	}
	// ---- oracles over what was recorded
	for i, r := range recs {
		for _, e := range r.errs {
			return fail("observation", "client %d: %s", i, e)
		}
	}
	// identity: same (kind, name, tags) -> same pointer, across calls and clients
	first := map[string]unsafe.Pointer{}
	calls := 0
	for _, r := range recs {
		var rids []string
		for id := range r.ptrs {
			rids = append(rids, id)
		}
		sort.Strings(rids)
		for _, id := range rids {
			ps := r.ptrs[id]
			for _, p := range ps {
				calls++
				if q, ok := first[id]; ok && q != p {
					return fail("identity", "two requests for the same metric identity %s returned different metrics (%p and %p)", id, q, p)
				}
				first[id] = p
			}
		}
	}
	// totals
	incs, obsN, obsSum, dbops := map[string]int64{}, map[string]int64{}, map[string]int64{}, map[string]int64{}
	var searches, hits int64
	for _, r := range recs {
		for k, v := range r.incs {
			incs[k] += v
		}
		for k, v := range r.obsN {
			obsN[k] += v
		}
		for k, v := range r.obsSum {
			obsSum[k] += v
		}
		for k, v := range r.dbops {
			dbops[k] += v
		}
		searches += r.search
		hits += r.hits
	}
	val, cnt := seriesOf(sys.col.GetAllMetrics())
	ids := make([]string, 0, len(first))
	for id := range first {
		ids = append(ids, id)
	}
	sort.Strings(ids) // the first violation reported must not depend on map iteration order
	for _, id := range ids {
		parts := strings.SplitN(id, "|", 3)
		kind, name, tk := parts[0], parts[1], parts[2]
		switch kind {
		case "counter":
			k := "counter|" + name + "|" + tk
			if cnt[k] != 1 {
				return fail("series-split", "GetAllMetrics shows %d series for counter %s (expected exactly one)", cnt[k], k)
			}
			if int64(val[k]) != incs[id] {
				return fail("counter-total", "counter %s reports %v, %d was added to it", k, val[k], incs[id])
			}
			if got := (*metrics.Counter)(first[id]).Value(); got != incs[id] {
				return fail("counter-total", "counter %s Value() = %d, %d was added to it", k, got, incs[id])
			}
		case "hist":
			k := "histogram|" + name + "_count|" + tk
			if cnt[k] != 1 {
				return fail("series-split", "GetAllMetrics shows %d series for histogram %s (expected exactly one)", cnt[k], k)
			}
			h := (*metrics.Histogram)(first[id])
			if h.Count() != obsN[id] || int64(val[k]) != obsN[id] {
				return fail("hist-count", "histogram %s reports count %d (series %v), %d observations were made", k, h.Count(), val[k], obsN[id])
			}
			if h.Sum() != float64(obsSum[id]) {
				return fail("hist-sum", "histogram %s reports sum %v, observations add up to %d", k, h.Sum(), obsSum[id])
			}
			last := h.Percentile(0)
			for _, p := range []float64{0.25, 0.5, 0.9, 0.99, 1, 1.5, 5, 25, 50, 75, 90, 95, 99, 99.9, 100} {
				v := h.Percentile(p)
				if v < last {
					return fail("percentile", "histogram %s: percentile %v = %v is below a lower percentile's %v", k, p, v, last)
				}
				last = v
			}
		case "timer":
			if got := (*metrics.Timer)(first[id]).Histogram().Count(); got != obsN[id] {
				return fail("timer-count", "timer %s recorded %d durations, %d were timed", id, got, obsN[id])
			}
		}
	}
	// monitor totals
	rep := sys.mon.GetPerformanceReport()
	mval, mcnt := seriesOf(rep.ApplicationMetrics)
	sT := `counter|searches_total|"cache_hit"="true",`
	sF := `counter|searches_total|"cache_hit"="false",`
	if got := int64(mval[sT] + mval[sF]); got != searches {
		return fail("monitor-searches", "searches_total{true}+{false} = %d, %d searches were recorded", got, searches)
	}
	if int64(mval[sT]) != hits {
		return fail("monitor-searches", "searches_total{cache_hit=true} = %v, %d cache-hit searches were recorded", mval[sT], hits)
	}
	if got := int64(mval["counter|cache_hits_total|"] + mval["counter|cache_misses_total|"]); got != searches {
		return fail("monitor-hitmiss", "cache_hits_total+cache_misses_total = %d, %d searches were recorded", got, searches)
	}
	if got := int64(mval["histogram|query_length_count|"]); got != searches {
		return fail("monitor-qlen", "query_length histogram counts %d observations, %d searches were recorded", got, searches)
	}
	if searches > 0 && (mcnt[sT] > 1 || mcnt[sF] > 1) {
		return fail("series-split", "searches_total is split over %d+%d series", mcnt[sT], mcnt[sF])
	}
	var dks []string
	for k := range dbops {
		dks = append(dks, k)
	}
	sort.Strings(dks)
	for _, k := range dks {
		n := dbops[k]
		parts := strings.SplitN(k, "|", 2)
		key := "counter|database_operations_total|" + tagsKey(map[string]string{"operation": parts[0], "success": parts[1]})
		if mcnt[key] != 1 {
			return fail("series-split", "database_operations_total{%s} is spread over %d series (expected one) after %d recorded operations", k, mcnt[key], n)
		}
		if int64(mval[key]) != n {
			return fail("monitor-dbops", "database_operations_total{%s} = %v, %d operations were recorded", k, mval[key], n)
		}
		tkey := "histogram|database_operation_duration_duration_count|" + tagsKey(map[string]string{"operation": parts[0], "success": parts[1]})
		if _, ok := mval[tkey]; ok && int64(mval[tkey]) != n {
			return fail("monitor-dbops", "database_operation_duration{%s} counts %v observations, %d operations were recorded", k, mval[tkey], n)
		}
	}
	multiTag := 0
	for _, ts := range c.TagSets {
		if len(ts) >= 2 {
			multiTag++
		}
	}
	o.Probes["c18.identities"] = len(first)
	o.Probes["c18.get_or_create_calls"] = calls
	o.Probes["c18.multi_tag_sets"] = multiTag
	o.Probes["c18.loops_permuted"] = permutedLoops
	o.Probes["c18.dbop_series"] = len(dbops)
	if c.Mode == "identity" {
		o.NonTrivial = permutedLoops > 0 && calls > len(first)
		var beh []string
		for _, op := range c.Ops {
			beh = append(beh, fmt.Sprintf("%s%d.%d", op.Kind[:1], op.Name, op.Tags))
		}
		o.Behaviour = fmt.Sprintf("id nt=%d %s", multiTag, strings.Join(beh, ""))
	} else {
		o.NonTrivial = o.Probes["sched.decisions"] > 0 && calls > 0
		o.Behaviour = fmt.Sprintf("acc c=%d %s", len(c.Clients), o.Behaviour)
	}
	o.Digest = digestOf([]any{log, val, mval})
	return o
}

func TestC18(t *testing.T) { runProperty(t, "C18", genC18, runC18) }
