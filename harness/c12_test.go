package harness

// C12 — the result cache is a correct bounded LRU with a staleness limit.
// World L: histories of cache operations interleaved with steps of the simulated
// clock, compared step by step with a reference model written from the statement.

import (
	"fmt"
	"math"
	"sort"
	"strings"
	"testing"
	"time"

	"github.com/Vedant9500/WTF/internal/cache"
	"github.com/Vedant9500/WTF/zz_verif/sim/simrt"
	"github.com/Vedant9500/WTF/zz_verif/sim/simtime"
	"pgregory.net/rapid"
)

type LRUOp struct {
	Kind string `json:"k"` // put get delete clear sweep size stats keys advance
	Key  int    `json:"key,omitempty"`
	Val  int    `json:"val,omitempty"`
	Adv  int64  `json:"adv,omitempty"` // nanoseconds
}

type C12Case struct {
	// Sched: schedule vector for goroutines / channels / select choices of the code under test (single-task case body = first task)
	Sched       []uint16 `json:"sched,omitempty"`
	Capacity    int      `json:"capacity"`
	TTL         int64    `json:"ttl_ns"`
	Ops         []LRUOp  `json:"ops"`
	SearchCache bool     `json:"via_search_cache"`
	FillDefault bool     `json:"fill_default"` // non-positive capacity: first fill past the default
}

// ---- reference model (from the statement) ----

type lruEntry struct {
	key           int
	val           int
	firstInserted int64
	lastStored    int64
}

type lruModel struct {
	cap       int
	ttl       int64
	now       int64
	list      []lruEntry // index 0 = most recently read or written
	hits      int64
	misses    int64
	evictions int64
}

func (m *lruModel) find(k int) int {
	for i := range m.list {
		if m.list[i].key == k {
			return i
		}
	}
	return -1
}

func (m *lruModel) toFront(i int) {
	e := m.list[i]
	copy(m.list[1:i+1], m.list[:i])
	m.list[0] = e
}

func (m *lruModel) remove(i int) { m.list = append(m.list[:i], m.list[i+1:]...) }

func (m *lruModel) keys() []int {
	out := make([]int, len(m.list))
	for i, e := range m.list {
		out[i] = e.key
	}
	sort.Ints(out)
	return out
}

// mustMiss: the most recent store is older than the lifetime.
func (m *lruModel) mustMiss(e lruEntry) bool { return m.ttl > 0 && m.now-e.lastStored > m.ttl }

// mustHit: nothing about the entry is older than the lifetime.
func (m *lruModel) mustHit(e lruEntry) bool { return m.ttl <= 0 || m.now-e.firstInserted <= m.ttl }

// the cache under test, behind one small interface for both entry points
type lruSUT interface {
	put(k, v int)
	get(k int) (int, bool)
	del(k int) bool
	clear()
	sweep() int
	size() int
	stats() cache.Stats
	keys() []int
	capacity() int
	hasDelete() bool
}

type rawLRU struct{ c *cache.LRUCache }

func keyName(k int) string { return fmt.Sprintf("k%d", k) }

func (r rawLRU) put(k, v int) { r.c.Put(keyName(k), v) }
func (r rawLRU) get(k int) (int, bool) {
	v, ok := r.c.Get(keyName(k))
	if !ok {
		return 0, false
	}
	i, isInt := v.(int)
	if !isInt {
		return -1, true
	}
	return i, true
}
func (r rawLRU) del(k int) bool     { return r.c.Delete(keyName(k)) }
func (r rawLRU) clear()             { r.c.Clear() }
func (r rawLRU) sweep() int         { return r.c.CleanupExpired() }
func (r rawLRU) size() int          { return r.c.Size() }
func (r rawLRU) stats() cache.Stats { return r.c.Stats() }
func (r rawLRU) capacity() int      { return r.c.Capacity() }
func (r rawLRU) hasDelete() bool    { return true }
func (r rawLRU) keys() []int {
	var out []int
	for _, k := range r.c.Keys() {
		var i int
		fmt.Sscanf(k, "k%d", &i)
		out = append(out, i)
	}
	sort.Ints(out)
	return out
}

// SearchCache entry point: key k is the request (query "q<k/3>", limit k%3+1); the
// value v is carried in the score of a one-element result list.
type viaSearchCache struct {
	sc    *cache.SearchCache
	cap   int
	known map[int]bool // keys ever used (Keys() is not exposed: presence is probed via Size only)
}

func scReq(k int) (string, cache.SearchOptions) {
	return fmt.Sprintf("q%d", k/3), cache.SearchOptions{Limit: k%3 + 1}
}
func (s *viaSearchCache) put(k, v int) {
	q, o := scReq(k)
	s.sc.Put(q, o, []cache.SearchResult{{Command: nil, Score: float64(v)}})
}
func (s *viaSearchCache) get(k int) (int, bool) {
	q, o := scReq(k)
	r, ok := s.sc.Get(q, o)
	if !ok {
		return 0, false
	}
	if len(r) != 1 {
		return -1, true
	}
	return int(r[0].Score), true
}
func (s *viaSearchCache) del(k int) bool     { return false }
func (s *viaSearchCache) clear()             { s.sc.Invalidate() }
func (s *viaSearchCache) sweep() int         { return s.sc.CleanupExpired() }
func (s *viaSearchCache) size() int          { return s.sc.Size() }
func (s *viaSearchCache) stats() cache.Stats { return s.sc.Stats() }
func (s *viaSearchCache) capacity() int      { return s.sc.Stats().Capacity }
func (s *viaSearchCache) hasDelete() bool    { return false }
func (s *viaSearchCache) keys() []int        { return nil }

func genC12(rt *rapid.T) C12Case {
	c := C12Case{}
	c.Capacity = rapid.SampledFrom([]int{-3, 0, 1, 1, 2, 2, 3, 3, 5}).Draw(rt, "capacity")
	c.TTL = rapid.SampledFrom([]int64{-5, 0, 0, 1, 1000, int64(time.Second), int64(time.Second), int64(time.Hour), int64(time.Hour),
		int64(100 * 365 * 24 * time.Hour), int64(290 * 365 * 24 * time.Hour), math.MaxInt64, // "practically never": sums with the clock overflow
	}).Draw(rt, "ttl")
	c.SearchCache = rapid.IntRange(0, 4).Draw(rt, "entry") == 0
	if c.Capacity <= 0 {
		c.FillDefault = rapid.IntRange(0, 2).Draw(rt, "fill") == 0
	}
	nkeys := rapid.IntRange(1, 6).Draw(rt, "nkeys")
	kinds := swarmKinds(rt, []string{"put", "put", "put", "get", "get", "get", "delete", "clear", "sweep", "size", "stats", "keys", "advance", "advance"}, "put")
	opGen := rapid.Custom(func(rt *rapid.T) LRUOp {
		k := rapid.SampledFrom(kinds).Draw(rt, "kind")
		op := LRUOp{Kind: k}
		switch k {
		case "put", "get", "delete":
			op.Key = rapid.IntRange(0, nkeys-1).Draw(rt, "key")
		case "advance":
			// steps around the lifetime boundary
			base := c.TTL
			if base <= 0 {
				base = int64(time.Second)
			}
			if base > int64(1000*time.Hour) {
				base = int64(time.Hour)
			}
			mult := rapid.SampledFrom([]int64{0, 1, 1, 1, 2, 3}).Draw(rt, "mult")
			delta := rapid.SampledFrom([]int64{-1, 0, 0, 1}).Draw(rt, "delta")
			frac := rapid.SampledFrom([]int64{1, 1, 2, 3}).Draw(rt, "frac")
			op.Adv = base*mult/frac + delta
			if op.Adv < 0 {
				op.Adv = 0
			}
		}
		return op
	})
	minLen := rapid.SampledFrom([]int{1, 1, 8, 20, 35}).Draw(rt, "minlen")
	c.Ops = rapid.SliceOfN(opGen, minLen, tierN(60, 160)).Draw(rt, "ops")
	for i := range c.Ops {
		if c.Ops[i].Kind == "put" {
			c.Ops[i].Val = i + 1 // unique values: every read is attributable to one write
		}
	}
	if rapid.IntRange(0, 3).Draw(rt, "hassched") == 0 {
		c.Sched = genSchedule(rt, 40)
	}
	return c
}

func runC12(c C12Case) *Outcome {
	return scheduledOutcome(c.Sched, func() *Outcome { return runC12Body(c) })
}

func runC12Body(c C12Case) *Outcome {
	o := &Outcome{Probes: map[string]int{}}
	simrt.SetOrderCanonical()
	simtime.Install(simtime.Epoch)
	defer simtime.Uninstall()
	ttl := time.Duration(c.TTL)
	var sut lruSUT
	if c.SearchCache {
		sut = &viaSearchCache{sc: cache.NewSearchCache(c.Capacity, ttl)}
	} else {
		sut = rawLRU{cache.NewLRUCache(c.Capacity, ttl)}
	}
	m := &lruModel{cap: c.Capacity, ttl: c.TTL, now: simtime.NowNS()}
	var log []string
	fail := func(sig, f string, a ...any) *Outcome {
		o.Violation = fmt.Sprintf(f, a...) + "\n  history: " + strings.Join(log, " ")
		o.Sig = "C12/" + sig
		o.Digest = digestOf(log)
		return o
	}
	if c.Capacity <= 0 {
		m.cap = sut.capacity()
		if m.cap <= 0 {
			return fail("nonpositive-capacity", "capacity %d requested, capacity in force is %d (must be a positive default)", c.Capacity, m.cap)
		}
	} else if got := sut.capacity(); got != c.Capacity {
		return fail("capacity", "capacity %d requested, Capacity() = %d", c.Capacity, got)
	}
	ops := c.Ops
	if c.FillDefault {
		// exercise the bound and the eviction order at the default capacity too
		pre := make([]LRUOp, 0, m.cap+3)
		for i := 0; i < m.cap+2; i++ {
			pre = append(pre, LRUOp{Kind: "put", Key: 1000 + i, Val: 100000 + i})
			if i == 1 {
				pre = append(pre, LRUOp{Kind: "get", Key: 1000})
			}
		}
		pre = append(pre, LRUOp{Kind: "keys"}, LRUOp{Kind: "stats"})
		ops = append(pre, ops...)
	}
	var beh []string
	evicted, expiredGet, sweepRemoved, sweepPartial, ambiguous := 0, 0, 0, 0, 0
	for i, op := range ops {
		switch op.Kind {
		case "advance":
			simtime.Advance(time.Duration(op.Adv))
			m.now += op.Adv
			o.SimNanos += op.Adv
			log = append(log, fmt.Sprintf("adv(%d)", op.Adv))
			beh = append(beh, "a")
		case "put":
			sut.put(op.Key, op.Val)
			log = append(log, fmt.Sprintf("put(%d,%d)", op.Key, op.Val))
			if j := m.find(op.Key); j >= 0 {
				m.list[j].val = op.Val
				m.list[j].lastStored = m.now
				m.toFront(j)
				beh = append(beh, "pu")
			} else {
				m.list = append([]lruEntry{{op.Key, op.Val, m.now, m.now}}, m.list...)
				if len(m.list) > m.cap {
					m.list = m.list[:len(m.list)-1]
					m.evictions++
					evicted++
					beh = append(beh, "pe")
				} else {
					beh = append(beh, "pn")
				}
			}
		case "get":
			v, ok := sut.get(op.Key)
			log = append(log, fmt.Sprintf("get(%d)=%d,%v", op.Key, v, ok))
			j := m.find(op.Key)
			switch {
			case j < 0:
				if ok {
					return fail("phantom-hit", "step %d: get(%d) returned %d but the key is not in the cache", i, op.Key, v)
				}
				m.misses++
				beh = append(beh, "gm")
			case m.mustMiss(m.list[j]):
				if ok {
					return fail("stale-hit", "step %d: get(%d) returned value %d stored %v ago, lifetime %v", i, op.Key, v, time.Duration(m.now-m.list[j].lastStored), ttl)
				}
				m.misses++
				expiredGet++
				beh = append(beh, "gx")
				// the entry may or may not have been dropped by the lookup; follow the implementation
				if sut.size() < len(m.list) {
					m.remove(j)
				}
			case m.mustHit(m.list[j]):
				if !ok {
					return fail("lost-entry", "step %d: get(%d) missed although the key was stored %v ago (lifetime %v) and not evicted", i, op.Key, time.Duration(m.now-m.list[j].firstInserted), ttl)
				}
				if v != m.list[j].val {
					return fail("wrong-value", "step %d: get(%d) = %d, most recently stored value is %d", i, op.Key, v, m.list[j].val)
				}
				m.hits++
				m.toFront(j)
				beh = append(beh, "gh")
			default:
				// first inserted longer ago than the lifetime, re-stored more recently: both answers satisfy the statement
				ambiguous++
				if ok {
					if v != m.list[j].val {
						return fail("wrong-value", "step %d: get(%d) = %d, most recently stored value is %d", i, op.Key, v, m.list[j].val)
					}
					m.hits++
					m.toFront(j)
					beh = append(beh, "gH")
				} else {
					m.misses++
					if sut.size() < len(m.list) {
						m.remove(j)
					}
					beh = append(beh, "gX")
				}
			}
		case "delete":
			if !sut.hasDelete() {
				continue
			}
			was := sut.del(op.Key)
			log = append(log, fmt.Sprintf("del(%d)=%v", op.Key, was))
			j := m.find(op.Key)
			if j < 0 {
				if was {
					return fail("delete-phantom", "step %d: delete(%d) reported an entry that is not in the cache", i, op.Key)
				}
			} else {
				if !was && m.mustHit(m.list[j]) {
					return fail("delete-missed", "step %d: delete(%d) reported nothing although the key is present", i, op.Key)
				}
				m.remove(j)
			}
			beh = append(beh, "d")
		case "clear":
			sut.clear()
			log = append(log, "clear")
			m.list = nil
			m.hits, m.misses, m.evictions = 0, 0, 0
			beh = append(beh, "c")
		case "sweep":
			before := len(m.list)
			n := sut.sweep()
			log = append(log, fmt.Sprintf("sweep=%d", n))
			if n < 0 {
				return fail("sweep-count", "step %d: sweep reported %d", i, n)
			}
			if c.SearchCache {
				// no Keys(): check the count against the size and against the number of expired entries
				after := sut.size()
				if before-after != n {
					return fail("sweep-count", "step %d: sweep reported %d removed, size went %d -> %d", i, n, before, after)
				}
				exp := 0
				for _, e := range m.list {
					if m.ttl > 0 && m.now-e.firstInserted > m.ttl {
						exp++
					}
				}
				if n > exp {
					return fail("sweep-live", "step %d: sweep removed %d entries, only %d are expired", i, n, exp)
				}
				// which ones went is not observable here; the implementation sweeps from the cold end
				for r := 0; r < n; r++ {
					for j := len(m.list) - 1; j >= 0; j-- {
						if m.now-m.list[j].firstInserted > m.ttl {
							m.remove(j)
							break
						}
					}
				}
			} else {
				left := map[int]bool{}
				for _, k := range sut.keys() {
					left[k] = true
				}
				gone := 0
				for j := len(m.list) - 1; j >= 0; j-- {
					e := m.list[j]
					if left[e.key] {
						continue
					}
					if !(m.ttl > 0 && m.now-e.firstInserted > m.ttl) {
						return fail("sweep-live", "step %d: sweep removed key %d inserted %v ago (lifetime %v): not expired", i, e.key, time.Duration(m.now-e.firstInserted), ttl)
					}
					m.remove(j)
					gone++
				}
				if gone != n {
					return fail("sweep-count", "step %d: sweep reported %d removed, %d entries disappeared", i, n, gone)
				}
			}
			if n > 0 {
				sweepRemoved++
			}
			for _, e := range m.list {
				if m.ttl > 0 && m.now-e.firstInserted > m.ttl {
					sweepPartial++
					break
				}
			}
			beh = append(beh, fmt.Sprintf("s%d", n))
		case "size":
			log = append(log, fmt.Sprintf("size=%d", sut.size()))
			beh = append(beh, "z")
		case "stats", "keys":
			beh = append(beh, "t")
		}
		// after every step: size, bound, key set, statistics
		if got := sut.size(); got != len(m.list) {
			return fail("size", "step %d (%s): Size() = %d, model holds %d entries %v", i, op.Kind, got, len(m.list), m.keys())
		}
		if len(m.list) > m.cap {
			return fail("bound", "step %d: %d entries exceed capacity %d", i, len(m.list), m.cap)
		}
		if !c.SearchCache {
			got := sut.keys()
			want := m.keys()
			if fmt.Sprint(got) != fmt.Sprint(want) {
				sig := "keys"
				if op.Kind == "put" {
					sig = "victim"
				}
				return fail(sig, "step %d (%s): cache holds keys %v, expected %v (recency order, most recent first: %v)", i, op.Kind, got, want, m.list)
			}
		}
		s := sut.stats()
		wantRatio := 0.0
		if m.hits+m.misses > 0 {
			wantRatio = float64(m.hits) / float64(m.hits+m.misses)
		}
		if s.Hits != m.hits || s.Misses != m.misses || s.Evictions != m.evictions || s.Size != len(m.list) || s.Capacity != m.cap || s.HitRatio != wantRatio {
			return fail("stats", "step %d (%s): Stats() = %+v, expected hits=%d misses=%d evictions=%d size=%d capacity=%d ratio=%v", i, op.Kind, s, m.hits, m.misses, m.evictions, len(m.list), m.cap, wantRatio)
		}
	}
	o.Probes["lru.evict"] = evicted
	o.Probes["lru.expire_on_get"] = expiredGet
	o.Probes["lru.sweep_removed"] = sweepRemoved
	o.Probes["lru.sweep_left_expired"] = sweepPartial
	o.Probes["lru.ambiguous_expiry"] = ambiguous
	if c.Capacity <= 0 {
		o.Probes["lru.default_capacity"] = 1
	}
	if c.SearchCache {
		o.Probes["lru.via_search_cache"] = 1
	}
	o.NonTrivial = evicted > 0 || expiredGet > 0 || sweepRemoved > 0
	o.Behaviour = fmt.Sprintf("cap=%d ttl=%d sc=%v %s", m.cap, c.TTL, c.SearchCache, strings.Join(beh, ""))
	o.Digest = digestOf(log)
	return o
}

func TestC12(t *testing.T) { runProperty(t, "C12", genC12, runC12) }
