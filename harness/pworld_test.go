package harness

// World P driver: the persistent state of "the wtf command run repeatedly by one user
// over one home directory" and helpers shared by C08 / C09 / C16-CLI / C17.

import (
	"encoding/json"
	"fmt"
	"strconv"
	"strings"
	"unicode"

	"github.com/Vedant9500/WTF/internal/database"
	"github.com/Vedant9500/WTF/internal/nlp"
	"github.com/Vedant9500/WTF/zz_verif/sim/simos"
	"github.com/Vedant9500/WTF/zz_verif/sim/simrt"
	"github.com/Vedant9500/WTF/zz_verif/sim/simtime"
)

const (
	pMainDB   = "/data/main.yml"
	pNotebook = "/home/u/.config/cmd-finder/personal.yml"
	pHistory  = "/home/u/.config/wtf/search_history.json"
)

type pworld struct {
	disk    *simos.Disk
	clockNS int64
	steps   int
	log     []string
	sched   []uint16 // schedule vector of every process of this world (goroutines / channels / select choices inside the tool)
}

func newPWorld() *pworld {
	d := simos.NewDisk()
	return &pworld{disk: d, clockNS: simtime.Epoch.UnixNano()}
}

// run executes one invocation; the world's disk and clock move on to what the process left.
func (w *pworld) run(args [][]byte, faults []simos.Fault, order *OrderPlan, tag string) (*NodeResult, error) {
	job := &NodeJob{Args: args, Disk: w.disk.Clone(), ClockNS: w.clockNS, Faults: faults, Order: order, Sched: w.sched}
	res, err := runNode(job, tag)
	if err != nil {
		return nil, err
	}
	w.steps++
	if res.Disk != nil {
		w.disk = res.Disk
		if res.ClockNS > w.clockNS {
			w.clockNS = res.ClockNS
		}
	}
	return res, nil
}

// probe executes an invocation from the current state without adopting its effects.
func (w *pworld) probe(args [][]byte, faults []simos.Fault, tag string) (*NodeResult, error) {
	job := &NodeJob{Args: args, Disk: w.disk.Clone(), ClockNS: w.clockNS, Faults: faults, Sched: w.sched}
	return runNode(job, tag)
}

// loadNotebook decodes the notebook on the given disk with the real loader, in this process.
func loadNotebookFrom(d *simos.Disk, path string) ([]database.Command, error) {
	if _, ok := d.ReadRaw(path); !ok {
		return nil, nil
	}
	simos.Mount(d.Clone(), nil)
	defer simos.Unmount()
	simrt.SetOrderCanonical()
	var db *database.Database
	var err error
	inSim(nil, func() { db, err = database.LoadDatabase(path) })
	if err != nil {
		return nil, err
	}
	return db.Commands, nil
}

func quoteArgs(args [][]byte) string {
	var ss []string
	for _, a := range args {
		ss = append(ss, strconv.Quote(string(a)))
	}
	return "wtf " + strings.Join(ss, " ")
}

// QArgs is an argv in Go-quoted form (replay files are JSON and cannot carry raw bytes).
type QArgs []string

func (q QArgs) bytes() [][]byte {
	out := make([][]byte, len(q))
	for i, s := range q {
		u, err := strconv.Unquote(s)
		if err != nil {
			u = s
		}
		out[i] = []byte(u)
	}
	return out
}

func qa(ss ...string) QArgs {
	out := make(QArgs, len(ss))
	for i, s := range ss {
		out[i] = strconv.Quote(s)
	}
	return out
}

var pStop = nlp.StopWords()

// searchableWords returns lower-case words of the text that the engine indexes and the
// query validator passes unchanged (ASCII letters only, >= 4 letters, no stop word).
func searchableWords(texts ...string) []string {
	var out []string
	seen := map[string]bool{}
	for _, t := range texts {
		for _, w := range strings.FieldsFunc(strings.ToLower(nlp.NormalizeText(t)), func(r rune) bool { return !unicode.IsLetter(r) && !unicode.IsNumber(r) }) {
			ok := len(w) >= 4 && len(w) <= 20
			for _, r := range w {
				if r < 'a' || r > 'z' {
					ok = false
				}
			}
			if ok && !pStop[w] && !seen[w] {
				seen[w] = true
				out = append(out, w)
			}
		}
	}
	return out
}

// jsonBlock extracts the JSON array printed by --format json: from the first line that is
// exactly "[" (or "[]") to the end of the matching array.
type jsonItem struct {
	Command     string   `json:"command"`
	Description string   `json:"description"`
	Keywords    []string `json:"keywords"`
	Category    string   `json:"category"`
	Platforms   []string `json:"platforms"`
	Score       float64  `json:"score"`
}

func jsonBlock(stdout []byte) ([]jsonItem, string) {
	lines := strings.Split(string(stdout), "\n")
	start := -1
	for i, l := range lines {
		if l == "[" || l == "[]" {
			start = i
			break
		}
	}
	if start < 0 {
		return nil, "no line starting a JSON array"
	}
	end := -1
	for i := start; i < len(lines); i++ {
		if lines[i] == "]" || lines[i] == "[]" {
			end = i
			break
		}
	}
	if end < 0 {
		return nil, "JSON array is not closed"
	}
	var items []jsonItem
	if err := json.Unmarshal([]byte(strings.Join(lines[start:end+1], "\n")), &items); err != nil {
		return nil, "result block is not a JSON array of objects: " + err.Error()
	}
	return items, ""
}

// stepDigest hashes everything observable of one invocation (stdout, stderr, exit, resulting disk, I/O trace)
// for the determinism self-test.
func stepDigest(r *NodeResult) string {
	var db []byte
	if r.Disk != nil {
		db = r.Disk.Marshal()
	}
	return hashStr(string(r.Stdout) + "\x00" + string(r.Stderr) + "\x00" + r.Exit + fmt.Sprint(r.Code) + "\x00" + string(db) + "\x00" + traceString(r.Trace))
}

func exitDesc(r *NodeResult) string {
	switch r.Exit {
	case "panic":
		return fmt.Sprintf("PANIC %s [%s]", r.Panic, r.Stack)
	case "fatal":
		return fmt.Sprintf("FATAL (exit code %d) %s", r.Code, r.Panic)
	case "killed":
		return fmt.Sprintf("killed at event %d %s(%s)", r.Kill.Idx, r.Kill.Op, r.Kill.Path)
	}
	return fmt.Sprintf("exit(%d)", r.Code)
}
