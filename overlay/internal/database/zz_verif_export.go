//go:build verif

package database

// VerifBM25FParams exposes the BM25F parameters in force (read-only) so that the
// reference scorer of the C03 check follows re-tuning instead of flagging it.
// Order of the arrays: command, description, keywords, tags.
func VerifBM25FParams() (k1 float64, w, b [4]float64) {
	p := defaultParams()
	return p.k1, [4]float64{p.w.cmd, p.w.desc, p.w.keys, p.w.tags}, [4]float64{p.b.cmd, p.b.desc, p.b.keys, p.b.tags}
}

// VerifIsPipeline exposes the repository's own definition of "is a pipeline command" (the
// eligibility predicate of the pipeline-only filter and of the pipeline boost) so that the
// reference scan of the C03 check uses it as given instead of re-stating it.
func VerifIsPipeline(cmd *Command) bool { return isPipelineCommand(cmd) }

// VerifIndexParams returns the parameters stored in the live index of db (nil index: ok=false).
func VerifIndexParams(db *Database) (k1 float64, w, b [4]float64, ok bool) {
	if db == nil || db.uIndex == nil {
		return 0, w, b, false
	}
	p := db.uIndex.params
	return p.k1, [4]float64{p.w.cmd, p.w.desc, p.w.keys, p.w.tags}, [4]float64{p.b.cmd, p.b.desc, p.b.keys, p.b.tags}, true
}
