# sourced by every script: offline Go toolchain that matches /repo's go.mod
export GOFLAGS=-mod=mod GOPROXY=off GOTOOLCHAIN=local GONOSUMDB=* GONOSUMCHECK=1 GOFLAGS="-mod=mod"
unset GOSUMDB
VERIF_GOROOT=/root/go/pkg/mod/golang.org/toolchain@v0.0.1-go1.25.5.linux-amd64
if [ ! -x "$VERIF_GOROOT/bin/go" ]; then
  echo "verif: Go toolchain $VERIF_GOROOT not found" >&2
  exit 2
fi
export PATH="$VERIF_GOROOT/bin:$PATH"
export GOROOT="$VERIF_GOROOT"
VERIF_DIR="$(cd "$(dirname "${BASH_SOURCE[0]}")/.." && pwd)"
export VERIF_DIR
