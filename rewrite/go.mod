module verif/rewrite

go 1.25.5
