// verif-rewrite instruments a scratch copy of the Vedant9500/WTF module so that every
// source of nondeterminism the properties depend on goes through a simulator seam:
//
//   - `range` over a map            -> simrt.MapRange(m, site)   (iteration order is a seeded choice)
//   - time.Now/Since/Until/Sleep    -> simtime.*                 (one simulated clock)
//   - selected os.* calls, os.File  -> simos.*                   (in-memory disk, environment, exit)
//   - sync.Mutex/RWMutex lock calls -> simrt.Lock/Unlock/...     (yield points of the cooperative scheduler)
//   - sync/atomic calls             -> followed by simrt yield   (yield points)
//   - SearchUniversal / RecoverFromSearchFailure -> tapped wrappers (what the engine returned in this process)
//   - cmd/wtf/main.go               -> copied into zz_verif/node with main renamed wtfMain
//
// It is stdlib-only (go/parser, go/types with the source importer). Any failure to
// parse or type-check is fatal (exit 2): the checks must never turn tool trouble into
// a verdict about the property.
//
// usage: verif-rewrite <module-dir>    (the `go` on PATH must be the module's toolchain)
package main

import (
	"bytes"
	"encoding/json"
	"fmt"
	"go/ast"
	"go/build"
	"go/format"
	"go/importer"
	"go/parser"
	"go/token"
	"go/types"
	"os"
	"path/filepath"
	"sort"
	"strconv"
	"strings"
)

const simBase = "zz_verif/sim/"

var (
	timeFuncs = map[string]bool{"Now": true, "Since": true, "Until": true, "Sleep": true,
		"NewTimer": true, "After": true, "AfterFunc": true, "NewTicker": true, "Tick": true, "Timer": true, "Ticker": true}
	osNames = map[string]bool{
		"ReadFile": true, "WriteFile": true, "Stat": true, "Lstat": true, "Open": true, "OpenFile": true,
		"Create": true, "CreateTemp": true, "Rename": true, "Remove": true, "RemoveAll": true, "Mkdir": true,
		"MkdirAll": true, "MkdirTemp": true, "ReadDir": true, "Chmod": true, "Truncate": true, "Link": true,
		"Symlink": true, "Readlink": true, "OpenRoot": true, "Root": true, "Getwd": true, "Chdir": true, "UserHomeDir": true, "UserConfigDir": true,
		"UserCacheDir": true, "Getenv": true, "LookupEnv": true, "Setenv": true, "Unsetenv": true,
		"Environ": true, "Executable": true, "Exit": true, "Stdin": true, "TempDir": true, "File": true,
		"Hostname": true, "Getuid": true, "Geteuid": true, "Getpid": true, "Getppid": true, "ExpandEnv": true, "SameFile": true,
	}
	// package-level functions of math/rand and math/rand/v2 (randomly seeded by the runtime in every process)
	randFuncs = map[string]bool{"Int": true, "Intn": true, "Int31": true, "Int31n": true, "Int63": true, "Int63n": true, "Uint32": true, "Uint64": true,
		"Float32": true, "Float64": true, "NormFloat64": true, "ExpFloat64": true, "Perm": true, "Shuffle": true, "Seed": true, "Read": true,
		"IntN": true, "Int32": true, "Int32N": true, "Int64": true, "Int64N": true, "Uint": true, "UintN": true, "Uint32N": true, "Uint64N": true, "N": true}
	lockNames = map[string]string{"Lock": "Lock", "Unlock": "Unlock", "RLock": "RLock", "RUnlock": "RUnlock", "TryLock": "TryLock", "TryRLock": "TryRLock"}
	// function name -> receiver type name ("" = plain function); wrapped with a tap
	tapFuncs = map[string]string{"SearchUniversal": "Database", "RecoverFromSearchFailure": "SearchRecovery"}
)

type report struct {
	Module          string         `json:"module"`
	Packages        int            `json:"packages"`
	Files           int            `json:"files"`
	MapRanges       []string       `json:"map_range_sites"`
	MapRangeSkipped []string       `json:"map_range_skipped"`
	TimeCalls       int            `json:"time_calls"`
	TimeUnshimmed   []string       `json:"time_unshimmed"`
	OsCalls         int            `json:"os_calls"`
	OsUnshimmed     map[string]int `json:"os_unshimmed"`
	LockSites       int            `json:"lock_sites"`
	AtomicSites     int            `json:"atomic_sites"`
	RandCalls       int            `json:"rand_calls"`
	ChanOps         int            `json:"chan_ops"`
	GoStmts         []string       `json:"go_statements"`
	Taps            []string       `json:"taps"`
	Warnings        []string       `json:"warnings"`
}

func fatalf(f string, a ...any) {
	fmt.Fprintf(os.Stderr, "verif-rewrite: "+f+"\n", a...)
	os.Exit(2)
}

func main() {
	if len(os.Args) != 2 {
		fatalf("usage: verif-rewrite <module-dir>")
	}
	root, err := filepath.Abs(os.Args[1])
	if err != nil {
		fatalf("%v", err)
	}
	modPath := readModulePath(filepath.Join(root, "go.mod"))
	rep := &report{Module: modPath, OsUnshimmed: map[string]int{}}

	var dirs []string
	err = filepath.WalkDir(root, func(p string, d os.DirEntry, err error) error {
		if err != nil {
			return err
		}
		if !d.IsDir() {
			return nil
		}
		name := d.Name()
		if p != root && (strings.HasPrefix(name, ".") || strings.HasPrefix(name, "_") || name == "testdata" || name == "vendor" || name == "zz_verif") {
			return filepath.SkipDir
		}
		dirs = append(dirs, p)
		return nil
	})
	if err != nil {
		fatalf("walk: %v", err)
	}

	fset := token.NewFileSet()
	imp := importer.ForCompiler(fset, "source", nil).(types.ImporterFrom)

	for _, dir := range dirs {
		bp, err := build.Default.ImportDir(dir, 0)
		if err != nil {
			if _, ok := err.(*build.NoGoError); ok {
				continue
			}
			fatalf("%s: %v", dir, err)
		}
		if len(bp.CgoFiles) > 0 {
			fatalf("%s: cgo files are not supported", dir)
		}
		if len(bp.GoFiles) == 0 {
			continue
		}
		rel, _ := filepath.Rel(root, dir)
		importPath := modPath
		if rel != "." {
			importPath = modPath + "/" + filepath.ToSlash(rel)
		}
		var files []*ast.File
		var names []string
		for _, gf := range bp.GoFiles {
			fn := filepath.Join(dir, gf)
			f, err := parser.ParseFile(fset, fn, nil, parser.ParseComments|parser.SkipObjectResolution)
			if err != nil {
				fatalf("parse %s: %v", fn, err)
			}
			files = append(files, f)
			names = append(names, fn)
		}
		info := &types.Info{
			Types:      map[ast.Expr]types.TypeAndValue{},
			Uses:       map[*ast.Ident]types.Object{},
			Defs:       map[*ast.Ident]types.Object{},
			Selections: map[*ast.SelectorExpr]*types.Selection{},
		}
		var terrs []string
		conf := types.Config{
			Importer: importerAt{imp, dir},
			Error:    func(err error) { terrs = append(terrs, err.Error()) },
		}
		_, _ = conf.Check(importPath, fset, files, info)
		if len(terrs) > 0 {
			fatalf("type errors in %s (the tree must compile before it is instrumented):\n  %s", importPath, strings.Join(terrs, "\n  "))
		}
		rep.Packages++
		for i, f := range files {
			relFile, _ := filepath.Rel(root, names[i])
			rw := &rewriter{fset: fset, info: info, file: f, rel: filepath.ToSlash(relFile), rep: rep, modPath: modPath, pkgName: bp.Name}
			rw.run()
			rep.Files++
			if rw.changed {
				if err := rw.write(names[i]); err != nil {
					fatalf("write %s: %v", names[i], err)
				}
			}
		}
	}

	// node copy of cmd/wtf/main.go
	if err := makeNodeMain(root, modPath); err != nil {
		fatalf("node main: %v", err)
	}

	sort.Strings(rep.MapRanges)
	out, _ := json.MarshalIndent(rep, "", " ")
	if err := os.MkdirAll(filepath.Join(root, "zz_verif"), 0o755); err != nil {
		fatalf("%v", err)
	}
	if err := os.WriteFile(filepath.Join(root, "zz_verif", "rewrite-report.json"), out, 0o644); err != nil {
		fatalf("%v", err)
	}
	fmt.Printf("verif-rewrite: %d packages, %d files, %d map ranges, %d time calls, %d os uses, %d lock sites, %d atomic sites, %d taps\n",
		rep.Packages, rep.Files, len(rep.MapRanges), rep.TimeCalls, rep.OsCalls, rep.LockSites, rep.AtomicSites, len(rep.Taps))
}

type importerAt struct {
	imp types.ImporterFrom
	dir string
}

func (i importerAt) Import(path string) (*types.Package, error) {
	return i.imp.ImportFrom(path, i.dir, 0)
}
func (i importerAt) ImportFrom(path, dir string, mode types.ImportMode) (*types.Package, error) {
	return i.imp.ImportFrom(path, i.dir, mode)
}

func readModulePath(gomod string) string {
	b, err := os.ReadFile(gomod)
	if err != nil {
		fatalf("%v", err)
	}
	for _, l := range strings.Split(string(b), "\n") {
		l = strings.TrimSpace(l)
		if strings.HasPrefix(l, "module ") {
			return strings.TrimSpace(strings.TrimPrefix(l, "module "))
		}
	}
	fatalf("no module line in %s", gomod)
	return ""
}

type rewriter struct {
	fset    *token.FileSet
	info    *types.Info
	file    *ast.File
	rel     string
	rep     *report
	modPath string
	pkgName string
	changed bool
	need    map[string]bool // sim packages to import: simrt, simtime, simos
}

func (r *rewriter) site(p token.Pos) string {
	return r.rel + ":" + strconv.Itoa(r.fset.Position(p).Line)
}

func siteLit(s string) *ast.BasicLit {
	return &ast.BasicLit{Kind: token.STRING, Value: strconv.Quote(s)}
}

func sel(pkg, name string) *ast.SelectorExpr {
	return &ast.SelectorExpr{X: ast.NewIdent(pkg), Sel: ast.NewIdent(name)}
}

func (r *rewriter) pkgOf(id *ast.Ident) string {
	if pn, ok := r.info.Uses[id].(*types.PkgName); ok {
		return pn.Imported().Path()
	}
	return ""
}

func (r *rewriter) run() {
	r.need = map[string]bool{}
	r.channels()
	type lockCall struct {
		call *ast.CallExpr
		name string
	}
	var (
		ranges    []*ast.RangeStmt
		timeSel   []*ast.SelectorExpr
		osSel     []*ast.SelectorExpr
		randSel   []*ast.SelectorExpr
		locks     []lockCall
		atomics   []*ast.CallExpr
		gos       []*ast.GoStmt
		wgWaits   []*ast.CallExpr
		onces     []*ast.CallExpr
		mapRanges []*ast.CallExpr
		conds     []lockCall
		lockers   []lockCall
	)
	callFuns := map[ast.Expr]bool{}
	ast.Inspect(r.file, func(n ast.Node) bool {
		if c, ok := n.(*ast.CallExpr); ok {
			callFuns[c.Fun] = true
		}
		return true
	})
	var methodVals []*ast.SelectorExpr
	ast.Inspect(r.file, func(n ast.Node) bool {
		switch x := n.(type) {
		case *ast.GoStmt:
			r.rep.GoStmts = append(r.rep.GoStmts, r.site(x.Pos()))
			gos = append(gos, x)
		case *ast.RangeStmt:
			t := r.info.TypeOf(x.X)
			if t == nil {
				break
			}
			if _, ok := t.Underlying().(*types.Map); ok {
				ranges = append(ranges, x)
			} else if tp, ok := t.(*types.TypeParam); ok {
				_ = tp
				r.rep.MapRangeSkipped = append(r.rep.MapRangeSkipped, r.site(x.Pos())+" (type parameter)")
			}
		case *ast.SelectorExpr:
			if sel, ok := r.info.Selections[x]; ok && sel.Kind() == types.MethodVal {
				if fn, _ := sel.Obj().(*types.Func); fn != nil && fn.Pkg() != nil && fn.Pkg().Path() == "sync" {
					rn := ""
					if recv := fn.Type().(*types.Signature).Recv(); recv != nil {
						rn = recvTypeName(recv.Type())
					}
					isRLocker := rn == "RWMutex" && fn.Name() == "RLocker"
					if (rn == "Mutex" || rn == "RWMutex") && ((!callFuns[x] && lockNames[fn.Name()] != "") || isRLocker) {
						methodVals = append(methodVals, x)
					}
				}
			}
			id, ok := x.X.(*ast.Ident)
			if !ok {
				break
			}
			switch r.pkgOf(id) {
			case "time":
				if timeFuncs[x.Sel.Name] {
					timeSel = append(timeSel, x)
				}
			case "runtime":
				if x.Sel.Name == "Gosched" {
					x.X.(*ast.Ident).Name = "simrt"
					r.need["simrt"] = true
					r.changed = true
				}
			case "context":
				if n := x.Sel.Name; n == "WithTimeout" || n == "WithDeadline" || n == "WithTimeoutCause" || n == "WithDeadlineCause" {
					r.rep.TimeUnshimmed = append(r.rep.TimeUnshimmed, r.site(x.Pos())+" context."+n+" (deadline on the real clock)")
				}
			case "math/rand", "math/rand/v2":
				if randFuncs[x.Sel.Name] {
					randSel = append(randSel, x)
				}
			case "crypto/rand":
				r.rep.Warnings = append(r.rep.Warnings, r.site(x.Pos())+" crypto/rand."+x.Sel.Name+" is not simulated (uncontrolled randomness)")
			case "path/filepath":
				switch x.Sel.Name {
				case "Glob", "Walk", "WalkDir", "Abs":
					osSel = append(osSel, x)
				case "EvalSymlinks":
					r.rep.OsUnshimmed["filepath."+x.Sel.Name]++
				}
			case "io/ioutil":
				switch x.Sel.Name {
				case "ReadFile", "WriteFile", "TempFile":
					osSel = append(osSel, x)
				case "TempDir":
					x.Sel.Name = "MkdirTemp"
					osSel = append(osSel, x)
				case "ReadDir":
					r.rep.OsUnshimmed["ioutil."+x.Sel.Name]++
				}
			case "os":
				if osNames[x.Sel.Name] {
					osSel = append(osSel, x)
				} else {
					r.rep.OsUnshimmed[x.Sel.Name]++
				}
			case "maps", "reflect":
				if n := x.Sel.Name; n == "Keys" || n == "Values" || n == "All" || n == "MapRange" || n == "MapKeys" {
					r.rep.Warnings = append(r.rep.Warnings, r.site(x.Pos())+" uncontrolled map iteration via "+r.pkgOf(id)+"."+n)
				}
			}
		case *ast.CallExpr:
			se, ok := x.Fun.(*ast.SelectorExpr)
			if !ok {
				break
			}
			// sync/atomic package functions
			if id, ok := se.X.(*ast.Ident); ok && r.pkgOf(id) == "sync/atomic" {
				atomics = append(atomics, x)
				break
			}
			if s, ok := r.info.Selections[se]; ok && s.Kind() == types.MethodVal {
				fn, _ := s.Obj().(*types.Func)
				if fn == nil || fn.Pkg() == nil {
					break
				}
				switch fn.Pkg().Path() {
				case "sync":
					recv := fn.Type().(*types.Signature).Recv()
					if recv == nil {
						break
					}
					rn := recvTypeName(recv.Type())
					if (rn == "Mutex" || rn == "RWMutex") && lockNames[fn.Name()] != "" {
						locks = append(locks, lockCall{x, fn.Name()})
					} else if rn == "WaitGroup" && fn.Name() == "Wait" {
						wgWaits = append(wgWaits, x)
					} else if rn == "Once" && fn.Name() == "Do" {
						onces = append(onces, x)
					} else if rn == "Locker" && (fn.Name() == "Lock" || fn.Name() == "Unlock") {
						lockers = append(lockers, lockCall{x, fn.Name()})
					} else if rn == "Cond" && (fn.Name() == "Wait" || fn.Name() == "Signal" || fn.Name() == "Broadcast") {
						conds = append(conds, lockCall{x, fn.Name()})
					} else if rn == "Map" && fn.Name() == "Range" {
						mapRanges = append(mapRanges, x)
					}
				case "sync/atomic":
					atomics = append(atomics, x)
				}
			}
		}
		return true
	})

	for _, rs := range ranges {
		s := r.site(rs.Pos())
		rs.X = &ast.CallExpr{Fun: sel("simrt", "MapRange"), Args: []ast.Expr{rs.X, siteLit(s)}}
		r.rep.MapRanges = append(r.rep.MapRanges, s)
		r.need["simrt"] = true
		r.changed = true
	}
	for _, se := range timeSel {
		se.X.(*ast.Ident).Name = "simtime"
		r.rep.TimeCalls++
		r.need["simtime"] = true
		r.changed = true
	}
	for _, se := range randSel {
		se.X.(*ast.Ident).Name = "simrand"
		r.rep.RandCalls++
		r.need["simrand"] = true
		r.changed = true
	}
	for _, se := range osSel {
		se.X.(*ast.Ident).Name = "simos"
		r.rep.OsCalls++
		r.need["simos"] = true
		r.changed = true
	}
	// method values of the lock methods (and rw.RLocker()): the receiver becomes a view whose methods are simulated
	for _, mv := range methodVals {
		t := r.info.TypeOf(mv.X)
		if t == nil {
			continue
		}
		base := t
		_, isPtr := t.Underlying().(*types.Pointer)
		if isPtr {
			base = t.Underlying().(*types.Pointer).Elem()
		}
		view := ""
		switch recvTypeName(base) {
		case "Mutex":
			view = "MV"
		case "RWMutex":
			view = "RWV"
		default:
			r.rep.Warnings = append(r.rep.Warnings, r.site(mv.Pos())+" method value of an embedded mutex not simulated")
			continue
		}
		var arg ast.Expr = mv.X
		if !isPtr {
			arg = &ast.UnaryExpr{Op: token.AND, X: mv.X}
		}
		mv.X = &ast.CallExpr{Fun: sel("simrt", view), Args: []ast.Expr{arg, siteLit(r.site(mv.Pos()))}}
		r.rep.LockSites++
		r.need["simrt"] = true
		r.changed = true
	}
	for _, lc := range locks {
		se := lc.call.Fun.(*ast.SelectorExpr)
		recv := se.X
		var arg ast.Expr
		if _, isPtr := r.info.TypeOf(recv).Underlying().(*types.Pointer); isPtr {
			arg = recv
		} else {
			arg = &ast.UnaryExpr{Op: token.AND, X: recv}
		}
		s := r.site(lc.call.Pos())
		lc.call.Fun = sel("simrt", lockNames[lc.name])
		lc.call.Args = []ast.Expr{arg, siteLit(s)}
		r.rep.LockSites++
		r.need["simrt"] = true
		r.changed = true
	}
	// go f(x)  ->  go simrt.GoRun(simrt.Spawn(site), func() { f(x) })
	// The spawning task registers the new task with the simulator's scheduler (a scheduling point); the new
	// goroutine runs only when the seeded schedule grants it the token. Note: the arguments are evaluated by
	// the new goroutine's closure rather than at the go statement.
	for _, g := range gos {
		s := r.site(g.Pos())
		orig := g.Call
		g.Call = &ast.CallExpr{Fun: sel("simrt", "GoRun"), Args: []ast.Expr{
			&ast.CallExpr{Fun: sel("simrt", "Spawn"), Args: []ast.Expr{siteLit(s)}},
			&ast.FuncLit{Type: &ast.FuncType{Params: &ast.FieldList{}}, Body: &ast.BlockStmt{List: []ast.Stmt{&ast.ExprStmt{X: orig}}}},
		}}
		r.need["simrt"] = true
		r.changed = true
	}
	// wg.Wait()  ->  simrt.WGWait(&wg, site)
	for _, c := range wgWaits {
		se := c.Fun.(*ast.SelectorExpr)
		recv := se.X
		var arg ast.Expr
		if _, isPtr := r.info.TypeOf(recv).Underlying().(*types.Pointer); isPtr {
			arg = recv
		} else {
			arg = &ast.UnaryExpr{Op: token.AND, X: recv}
		}
		c.Fun = sel("simrt", "WGWait")
		c.Args = []ast.Expr{arg, siteLit(r.site(c.Pos()))}
		r.need["simrt"] = true
		r.changed = true
	}
	// m.Range(f) on a sync.Map  ->  simrt.SyncMapRange(&m, f, site)
	for _, c := range mapRanges {
		se := c.Fun.(*ast.SelectorExpr)
		recv := se.X
		if recvTypeName(r.info.TypeOf(recv)) != "Map" {
			r.rep.Warnings = append(r.rep.Warnings, r.site(c.Pos())+" Range on an embedded sync.Map: iteration order not controlled")
			continue
		}
		var arg ast.Expr
		if _, isPtr := r.info.TypeOf(recv).Underlying().(*types.Pointer); isPtr {
			arg = recv
		} else {
			arg = &ast.UnaryExpr{Op: token.AND, X: recv}
		}
		c.Fun = sel("simrt", "SyncMapRange")
		c.Args = []ast.Expr{arg, c.Args[0], siteLit(r.site(c.Pos()))}
		r.need["simrt"] = true
		r.changed = true
	}
	// once.Do(f)  ->  simrt.OnceDo(&once, f, site)
	for _, c := range onces {
		se := c.Fun.(*ast.SelectorExpr)
		recv := se.X
		if recvTypeName(r.info.TypeOf(recv)) != "Once" { // promoted through embedding: left alone
			r.rep.Warnings = append(r.rep.Warnings, r.site(c.Pos())+" Do on an embedded sync.Once not simulated")
			continue
		}
		var arg ast.Expr
		if _, isPtr := r.info.TypeOf(recv).Underlying().(*types.Pointer); isPtr {
			arg = recv
		} else {
			arg = &ast.UnaryExpr{Op: token.AND, X: recv}
		}
		c.Fun = sel("simrt", "OnceDo")
		c.Args = []ast.Expr{arg, c.Args[0], siteLit(r.site(c.Pos()))}
		r.rep.LockSites++
		r.need["simrt"] = true
		r.changed = true
	}
	// c.Wait() / c.Signal() / c.Broadcast() on a sync.Cond  ->  simrt.CondWait(c, site) ...
	for _, lc := range conds {
		se := lc.call.Fun.(*ast.SelectorExpr)
		recv := se.X
		if recvTypeName(r.info.TypeOf(recv)) != "Cond" {
			r.rep.Warnings = append(r.rep.Warnings, r.site(lc.call.Pos())+" method of an embedded sync.Cond not simulated")
			continue
		}
		var arg ast.Expr
		if _, isPtr := r.info.TypeOf(recv).Underlying().(*types.Pointer); isPtr {
			arg = recv
		} else {
			arg = &ast.UnaryExpr{Op: token.AND, X: recv}
		}
		lc.call.Fun = sel("simrt", "Cond"+lc.name)
		lc.call.Args = []ast.Expr{arg, siteLit(r.site(lc.call.Pos()))}
		r.rep.LockSites++
		r.need["simrt"] = true
		r.changed = true
	}
	// l.Lock() / l.Unlock() on a sync.Locker  ->  simrt.LockerLock(l, site) / simrt.LockerUnlock(l, site)
	for _, lc := range lockers {
		se := lc.call.Fun.(*ast.SelectorExpr)
		lc.call.Fun = sel("simrt", "Locker"+lc.name)
		lc.call.Args = []ast.Expr{se.X, siteLit(r.site(lc.call.Pos()))}
		r.rep.LockSites++
		r.need["simrt"] = true
		r.changed = true
	}
	for _, c := range atomics {
		s := r.site(c.Pos())
		orig := *c
		tv := r.info.Types[c]
		if tv.IsVoid() {
			*c = ast.CallExpr{Fun: sel("simrt", "AfterDo"), Args: []ast.Expr{
				&ast.FuncLit{Type: &ast.FuncType{Params: &ast.FieldList{}}, Body: &ast.BlockStmt{List: []ast.Stmt{&ast.ExprStmt{X: &orig}}}},
				siteLit(s)}}
		} else if _, isTuple := tv.Type.(*types.Tuple); isTuple {
			r.rep.Warnings = append(r.rep.Warnings, s+" multi-value atomic call not instrumented")
			continue
		} else {
			*c = ast.CallExpr{Fun: sel("simrt", "After"), Args: []ast.Expr{&orig, siteLit(s)}}
		}
		r.rep.AtomicSites++
		r.need["simrt"] = true
		r.changed = true
	}
	r.taps()
}

// channels rewrites every channel operation of the file so that it goes through the simulator's channel table
// (sim/simrt/chan.go):
//
//	make(chan T, n)           ->  simrt.MakeChan(make(chan T, n))
//	ch <- v                   ->  simrt.ChanSend(ch, v, site)
//	<-ch   (any context)      ->  <-simrt.RecvVia(ch, site)
//	for v := range ch         ->  for v := range simrt.ChanRange(ch, site)
//	close(ch), len(ch)        ->  simrt.ChanClose(ch, site), simrt.ChanLen(ch)
//	select { ... }            ->  switch s := simrt.Select(site, hasDefault, cases...); s.Index { ... }
func (r *rewriter) channels() {
	isChan := func(e ast.Expr) bool {
		t := r.info.TypeOf(e)
		if t == nil {
			return false
		}
		_, ok := t.Underlying().(*types.Chan)
		return ok
	}
	builtin := func(e ast.Expr, name string) bool {
		id, ok := e.(*ast.Ident)
		if !ok || id.Name != name {
			return false
		}
		_, ok = r.info.Uses[id].(*types.Builtin)
		return ok
	}
	unparen := func(e ast.Expr) ast.Expr {
		for {
			p, ok := e.(*ast.ParenExpr)
			if !ok {
				return e
			}
			e = p.X
		}
	}
	type slot struct {
		p   *ast.Stmt
		pos token.Pos
	}
	var (
		slots    []slot
		recvs    []*ast.UnaryExpr
		ranges   []*ast.RangeStmt
		makes    []*ast.CallExpr
		closes   []*ast.CallExpr
		lens     []*ast.CallExpr
		commRecv = map[*ast.UnaryExpr]bool{}
		commSend = map[*ast.SendStmt]bool{}
	)
	addList := func(list []ast.Stmt) {
		for i := range list {
			switch list[i].(type) {
			case *ast.SendStmt, *ast.SelectStmt:
				slots = append(slots, slot{&list[i], list[i].Pos()})
			}
		}
	}
	ast.Inspect(r.file, func(n ast.Node) bool {
		switch x := n.(type) {
		case *ast.BlockStmt:
			addList(x.List)
		case *ast.CaseClause:
			addList(x.Body)
		case *ast.CommClause:
			addList(x.Body)
			switch c := x.Comm.(type) {
			case *ast.SendStmt:
				commSend[c] = true
			case *ast.ExprStmt:
				if u, ok := unparen(c.X).(*ast.UnaryExpr); ok {
					commRecv[u] = true
				}
			case *ast.AssignStmt:
				if len(c.Rhs) == 1 {
					if u, ok := unparen(c.Rhs[0]).(*ast.UnaryExpr); ok {
						commRecv[u] = true
					}
				}
			}
		case *ast.LabeledStmt:
			switch x.Stmt.(type) {
			case *ast.SendStmt, *ast.SelectStmt:
				slots = append(slots, slot{&x.Stmt, x.Stmt.Pos()})
			}
		case *ast.ForStmt:
			if _, ok := x.Post.(*ast.SendStmt); ok {
				slots = append(slots, slot{&x.Post, x.Post.Pos()})
			}
		case *ast.IfStmt:
			if _, ok := x.Init.(*ast.SendStmt); ok {
				r.rep.Warnings = append(r.rep.Warnings, r.site(x.Pos())+" channel send in an if-initialiser is not simulated")
			}
		case *ast.UnaryExpr:
			if x.Op == token.ARROW {
				recvs = append(recvs, x)
			}
		case *ast.RangeStmt:
			if isChan(x.X) {
				ranges = append(ranges, x)
			}
		case *ast.CallExpr:
			switch {
			case builtin(x.Fun, "make") && isChan(x):
				makes = append(makes, x)
			case builtin(x.Fun, "close") && len(x.Args) == 1:
				closes = append(closes, x)
			case builtin(x.Fun, "len") && len(x.Args) == 1 && isChan(x.Args[0]):
				lens = append(lens, x)
			}
		}
		return true
	})
	if len(slots)+len(recvs)+len(ranges)+len(makes)+len(closes)+len(lens) == 0 {
		return
	}
	call := func(name string, args ...ast.Expr) *ast.CallExpr {
		return &ast.CallExpr{Fun: sel("simrt", name), Args: args}
	}
	for _, u := range recvs {
		if commRecv[u] {
			continue
		}
		u.X = call("RecvVia", u.X, siteLit(r.site(u.Pos())))
		r.rep.ChanOps++
	}
	for _, rs := range ranges {
		rs.X = call("ChanRange", rs.X, siteLit(r.site(rs.Pos())))
		r.rep.ChanOps++
	}
	for _, c := range makes {
		orig := *c
		*c = ast.CallExpr{Fun: sel("simrt", "MakeChan"), Args: []ast.Expr{&orig}}
		r.rep.ChanOps++
	}
	for _, c := range closes {
		c.Fun = sel("simrt", "ChanClose")
		c.Args = append(c.Args, siteLit(r.site(c.Pos())))
		r.rep.ChanOps++
	}
	for _, c := range lens {
		c.Fun = sel("simrt", "ChanLen")
		r.rep.ChanOps++
	}
	// statements, innermost first (the rewritten select reuses the clause bodies)
	sort.Slice(slots, func(i, j int) bool { return slots[i].pos > slots[j].pos })
	for _, sl := range slots {
		switch st := (*sl.p).(type) {
		case *ast.SendStmt:
			if commSend[st] {
				continue
			}
			*sl.p = &ast.ExprStmt{X: call("ChanSend", st.Chan, st.Value, siteLit(r.site(st.Pos())))}
			r.rep.ChanOps++
		case *ast.SelectStmt:
			name := "verifSel" + strconv.Itoa(r.fset.Position(st.Pos()).Offset)
			hasDefault := "false"
			for _, c := range st.Body.List {
				if c.(*ast.CommClause).Comm == nil {
					hasDefault = "true"
				}
			}
			args := []ast.Expr{siteLit(r.site(st.Pos())), ast.NewIdent(hasDefault)}
			var clauses []ast.Stmt
			idx := 0
			for _, c := range st.Body.List {
				cc := c.(*ast.CommClause)
				if cc.Comm == nil {
					clauses = append(clauses, &ast.CaseClause{Body: cc.Body})
					continue
				}
				body := cc.Body
				switch comm := cc.Comm.(type) {
				case *ast.SendStmt:
					args = append(args, call("SendCase", comm.Chan, comm.Value))
				case *ast.ExprStmt:
					u := unparen(comm.X).(*ast.UnaryExpr)
					args = append(args, call("RecvCase", u.X))
				case *ast.AssignStmt:
					u := unparen(comm.Rhs[0]).(*ast.UnaryExpr)
					args = append(args, call("RecvCase", u.X))
					fn := "SelRecv"
					if len(comm.Lhs) == 2 {
						fn = "SelRecv2"
					}
					as := &ast.AssignStmt{Lhs: comm.Lhs, Tok: comm.Tok, Rhs: []ast.Expr{call(fn, ast.NewIdent(name), u.X)}}
					body = append([]ast.Stmt{as}, cc.Body...)
				}
				clauses = append(clauses, &ast.CaseClause{List: []ast.Expr{&ast.BasicLit{Kind: token.INT, Value: strconv.Itoa(idx)}}, Body: body})
				idx++
			}
			if hasDefault == "false" {
				// keeps the statement "terminating" where the select was (a select whose clauses all return needs no
				// return after it; a switch needs a default clause for that)
				clauses = append(clauses, &ast.CaseClause{Body: []ast.Stmt{&ast.ExprStmt{X: &ast.CallExpr{Fun: ast.NewIdent("panic"), Args: []ast.Expr{siteLit("simrt.Select returned no clause")}}}}})
			}
			*sl.p = &ast.SwitchStmt{
				Init: &ast.AssignStmt{Lhs: []ast.Expr{ast.NewIdent(name)}, Tok: token.DEFINE, Rhs: []ast.Expr{call("Select", args...)}},
				Tag:  &ast.SelectorExpr{X: ast.NewIdent(name), Sel: ast.NewIdent("Index")},
				Body: &ast.BlockStmt{List: clauses},
			}
			r.rep.ChanOps++
		}
	}
	r.need["simrt"] = true
	r.changed = true
}

func recvTypeName(t types.Type) string {
	if p, ok := t.(*types.Pointer); ok {
		t = p.Elem()
	}
	if n, ok := t.(*types.Named); ok {
		return n.Obj().Name()
	}
	return ""
}

// taps renames selected functions to <name>VerifOrig and adds a wrapper with the
// original name that forwards the call and hands arguments and results to simrt.Tap.
func (r *rewriter) taps() {
	var add []ast.Decl
	for _, d := range r.file.Decls {
		fd, ok := d.(*ast.FuncDecl)
		if !ok || fd.Body == nil {
			continue
		}
		want, ok := tapFuncs[fd.Name.Name]
		if !ok {
			continue
		}
		recvName := ""
		if fd.Recv != nil && len(fd.Recv.List) == 1 {
			recvName = recvASTName(fd.Recv.List[0].Type)
		}
		if recvName != want {
			continue
		}
		if fd.Type.TypeParams != nil {
			continue
		}
		name := fd.Name.Name
		// build wrapper
		w := &ast.FuncDecl{Name: ast.NewIdent(name), Type: &ast.FuncType{Params: &ast.FieldList{}}}
		var recvIdent *ast.Ident
		if fd.Recv != nil {
			recvIdent = ast.NewIdent("verifRecv")
			w.Recv = &ast.FieldList{List: []*ast.Field{{Names: []*ast.Ident{recvIdent}, Type: fd.Recv.List[0].Type}}}
		}
		var args []ast.Expr
		var argVals []ast.Expr
		variadic := false
		i := 0
		for _, f := range fd.Type.Params.List {
			n := len(f.Names)
			if n == 0 {
				n = 1
			}
			var ids []*ast.Ident
			for k := 0; k < n; k++ {
				id := ast.NewIdent("verifA" + strconv.Itoa(i))
				i++
				ids = append(ids, id)
				args = append(args, ast.NewIdent(id.Name))
				argVals = append(argVals, ast.NewIdent(id.Name))
			}
			if _, ok := f.Type.(*ast.Ellipsis); ok {
				variadic = true
			}
			w.Type.Params.List = append(w.Type.Params.List, &ast.Field{Names: ids, Type: f.Type})
		}
		var resIDs []ast.Expr
		var resVals []ast.Expr
		if fd.Type.Results != nil {
			w.Type.Results = &ast.FieldList{}
			j := 0
			for _, f := range fd.Type.Results.List {
				n := len(f.Names)
				if n == 0 {
					n = 1
				}
				for k := 0; k < n; k++ {
					id := "verifR" + strconv.Itoa(j)
					j++
					resIDs = append(resIDs, ast.NewIdent(id))
					resVals = append(resVals, ast.NewIdent(id))
				}
				// results of the wrapper are unnamed
				for k := 0; k < n; k++ {
					w.Type.Results.List = append(w.Type.Results.List, &ast.Field{Type: f.Type})
				}
			}
		}
		var callee ast.Expr
		if recvIdent != nil {
			callee = &ast.SelectorExpr{X: ast.NewIdent(recvIdent.Name), Sel: ast.NewIdent(name + "VerifOrig")}
		} else {
			callee = ast.NewIdent(name + "VerifOrig")
		}
		call := &ast.CallExpr{Fun: callee, Args: args}
		if variadic {
			call.Ellipsis = 1
		}
		var body []ast.Stmt
		anySlice := func(vals []ast.Expr) ast.Expr {
			return &ast.CompositeLit{Type: &ast.ArrayType{Elt: ast.NewIdent("any")}, Elts: vals}
		}
		tapCall := &ast.ExprStmt{X: &ast.CallExpr{Fun: sel("simrt", "Tap"), Args: []ast.Expr{siteLit(name), anySlice(argVals), anySlice(resVals)}}}
		if len(resIDs) > 0 {
			body = append(body, &ast.AssignStmt{Lhs: resIDs, Tok: token.DEFINE, Rhs: []ast.Expr{call}})
			body = append(body, tapCall)
			var rets []ast.Expr
			for _, e := range resVals {
				rets = append(rets, ast.NewIdent(e.(*ast.Ident).Name))
			}
			body = append(body, &ast.ReturnStmt{Results: rets})
		} else {
			body = append(body, &ast.ExprStmt{X: call}, tapCall)
		}
		w.Body = &ast.BlockStmt{List: body}
		fd.Name.Name = name + "VerifOrig"
		add = append(add, w)
		r.rep.Taps = append(r.rep.Taps, r.rel+":"+name)
		r.need["simrt"] = true
		r.changed = true
	}
	r.file.Decls = append(r.file.Decls, add...)
}

func recvASTName(e ast.Expr) string {
	switch x := e.(type) {
	case *ast.StarExpr:
		return recvASTName(x.X)
	case *ast.Ident:
		return x.Name
	case *ast.IndexExpr:
		return recvASTName(x.X)
	}
	return ""
}

func (r *rewriter) write(filename string) error {
	// imports whose every use was redirected become blank imports
	for _, is := range r.file.Imports {
		p, _ := strconv.Unquote(is.Path.Value)
		if p != "time" && p != "os" && p != "sync/atomic" && p != "sync" && p != "math/rand" && p != "math/rand/v2" && p != "path/filepath" && p != "io/ioutil" && p != "runtime" {
			continue
		}
		if is.Name != nil && (is.Name.Name == "_" || is.Name.Name == ".") {
			continue
		}
		local := filepath.Base(p)
		if p == "math/rand/v2" {
			local = "rand"
		}
		if is.Name != nil {
			local = is.Name.Name
		}
		used := false
		for id, obj := range r.info.Uses {
			pn, ok := obj.(*types.PkgName)
			if !ok || pn.Imported().Path() != p {
				continue
			}
			if id.Pos() < r.file.FileStart || id.Pos() > r.file.FileEnd {
				continue
			}
			if id.Name == local {
				used = true
				break
			}
		}
		if !used {
			is.Name = ast.NewIdent("_")
		}
	}
	var buf bytes.Buffer
	if err := format.Node(&buf, r.fset, r.file); err != nil {
		return fmt.Errorf("print: %w", err)
	}
	src := buf.Bytes()
	var needs []string
	for k := range r.need {
		needs = append(needs, k)
	}
	sort.Strings(needs)
	if len(needs) > 0 {
		fs2 := token.NewFileSet()
		f2, err := parser.ParseFile(fs2, filename, src, parser.PackageClauseOnly)
		if err != nil {
			return fmt.Errorf("reparse: %w", err)
		}
		off := fs2.Position(f2.Name.End()).Offset
		var ins bytes.Buffer
		ins.WriteString("\n\nimport (\n")
		for _, n := range needs {
			fmt.Fprintf(&ins, "\t%s %q\n", n, r.modPath+"/"+simBase+n)
		}
		ins.WriteString(")\n")
		src = append(src[:off:off], append(ins.Bytes(), src[off:]...)...)
	}
	out, err := format.Source(src)
	if err != nil {
		return fmt.Errorf("format: %w", err)
	}
	return os.WriteFile(filename, out, 0o644)
}

// makeNodeMain copies cmd/wtf/main.go (already instrumented) into zz_verif/node as
// package node with main renamed WtfMain.
func makeNodeMain(root, modPath string) error {
	src := filepath.Join(root, "cmd", "wtf", "main.go")
	fset := token.NewFileSet()
	f, err := parser.ParseFile(fset, src, nil, parser.ParseComments)
	if err != nil {
		return err
	}
	found := false
	for _, d := range f.Decls {
		if fd, ok := d.(*ast.FuncDecl); ok && fd.Recv == nil && fd.Name.Name == "main" {
			fd.Name.Name = "WtfMain"
			found = true
		}
	}
	if !found {
		return fmt.Errorf("no func main in %s", src)
	}
	f.Name.Name = "node"
	f.Doc = nil
	var buf bytes.Buffer
	if err := format.Node(&buf, fset, f); err != nil {
		return err
	}
	dir := filepath.Join(root, "zz_verif", "node")
	if err := os.MkdirAll(dir, 0o755); err != nil {
		return err
	}
	return os.WriteFile(filepath.Join(dir, "wtfmain_gen.go"), buf.Bytes(), 0o644)
}
